//! Plan vocabulary. A plan is an explicit, concrete list of steps; executing it never consults the
//! PRNG, so a replay file (a serialised plan) is a pure function of the code under test.

use serde::{Deserialize, Serialize};
use std::collections::BTreeMap;

/// byte string, hex in JSON
#[derive(Clone, PartialEq, Eq, Debug, Default, Hash)]
pub struct B(pub Vec<u8>);

impl Serialize for B {
    fn serialize<S: serde::Serializer>(&self, s: S) -> Result<S::Ok, S::Error> {
        let mut h = String::with_capacity(self.0.len() * 2);
        for x in &self.0 {
            h.push_str(&format!("{:02x}", x));
        }
        s.serialize_str(&h)
    }
}

impl<'de> Deserialize<'de> for B {
    fn deserialize<D: serde::Deserializer<'de>>(d: D) -> Result<B, D::Error> {
        let s = String::deserialize(d)?;
        let b = s.as_bytes();
        if b.len() % 2 != 0 {
            return Err(serde::de::Error::custom("odd hex"));
        }
        let nib = |c: u8| -> Result<u8, D::Error> {
            match c {
                b'0'..=b'9' => Ok(c - b'0'),
                b'a'..=b'f' => Ok(c - b'a' + 10),
                b'A'..=b'F' => Ok(c - b'A' + 10),
                _ => Err(serde::de::Error::custom("bad hex")),
            }
        };
        let mut v = Vec::with_capacity(b.len() / 2);
        for p in b.chunks(2) {
            v.push((nib(p[0])? << 4) | nib(p[1])?);
        }
        Ok(B(v))
    }
}

impl B {
    pub fn a32(&self) -> [u8; 32] {
        let mut a = [0u8; 32];
        let n = self.0.len().min(32);
        a[..n].copy_from_slice(&self.0[..n]);
        a
    }
    pub fn a64(&self) -> [u8; 64] {
        let mut a = [0u8; 64];
        let n = self.0.len().min(64);
        a[..n].copy_from_slice(&self.0[..n]);
        a
    }
}

impl From<[u8; 32]> for B {
    fn from(a: [u8; 32]) -> B {
        B(a.to_vec())
    }
}
impl From<[u8; 64]> for B {
    fn from(a: [u8; 64]) -> B {
        B(a.to_vec())
    }
}
impl From<Vec<u8>> for B {
    fn from(a: Vec<u8>) -> B {
        B(a)
    }
}
impl From<&[u8]> for B {
    fn from(a: &[u8]) -> B {
        B(a.to_vec())
    }
}

/// A scalar argument. `k` says how the 32 bytes become a `Scalar` / an integer:
/// 0 = reduced mod l (`from_bytes_mod_order`), 1 = canonical (`from_canonical_bytes`, generator
/// guarantees < l), 2 = unreduced integer below 2^255 (`from_bits`, bit 255 cleared).
#[derive(Clone, Debug, Serialize, Deserialize, PartialEq)]
pub struct Sc {
    pub b: B,
    pub k: u8,
}

/// What the simulated RNG hands out: `b` repeated cyclically. `mode` is recorded for evidence
/// (0 prng, 1 stuck-at-zero, 2 stuck-at-ones, 3 repeated block shared between parties).
#[derive(Clone, Debug, Serialize, Deserialize, PartialEq)]
pub struct Rng {
    pub b: B,
    pub mode: u8,
}

pub type H = u16;

#[derive(Clone, Debug, Serialize, Deserialize, PartialEq)]
#[serde(tag = "op")]
pub enum Step {
    // ------------------------------------------------------------------ group family
    // g: 0 = EdwardsPoint register file, 1 = RistrettoPoint register file
    /// decode 32 wire bytes into handle dst (unset when decoding fails)
    Dec { g: u8, dst: H, b: B, via: u8 },
    /// which: 0 identity, 1 basepoint constant, 2 Default::default()
    Const { g: u8, dst: H, which: u8 },
    /// Ristretto element derivation from 64 bytes. via 0 from_uniform_bytes, 1 from_hash::<ChosenDigest>,
    /// 2 hash_from_bytes::<Sha512>(b) (any length input)
    Uni { dst: H, b: B, via: u8 },
    Bin { g: u8, dst: H, a: H, b: H, sub: bool, via: u8 },
    Neg { g: u8, dst: H, a: H },
    /// via 0 a+a, 1 group::Group::double
    Dbl { g: u8, dst: H, a: H, via: u8 },
    /// Edwards mul_by_cofactor
    Cof { dst: H, a: H },
    Sum { g: u8, dst: H, hs: Vec<H> },
    /// via 0 conditional_select, 1 conditional_assign
    Sel { g: u8, dst: H, a: H, b: H, c: u8, via: u8 },
    /// via 0 &P*&s, 1 &s*&P, 2 P*s, 3 P*=s
    Mul { g: u8, dst: H, a: H, s: Sc, via: u8, d: u8 },
    /// via 0 mul_base, 1 &s * BASEPOINT_TABLE (tables build, else mul_base), 2 s * BASEPOINT_POINT
    MulBase { g: u8, dst: H, s: Sc, via: u8, d: u8 },
    /// Edwards mul_clamped(k) (a = Some) / mul_base_clamped(k) (a = None)
    Clamp { dst: H, a: Option<H>, k: B, d: u8 },
    /// build a basepoint table of the given radix (16/32/64/128/256; Ristretto: 16) from handle a,
    /// check basepoint() and compute table * s
    /// slot: the table object is also kept in this slot of the party's table store (reused by TUse)
    Table { g: u8, dst: H, a: H, radix: u16, s: Sc, #[serde(default)] slot: u8 },
    /// n-th use of a table object created earlier by `Table` in `slot`: dst = table * s (and its basepoint())
    TUse { g: u8, dst: H, slot: u8, s: Sc },
    /// vartime_double_scalar_mul_basepoint(sa, A, sb) = sa*A + sb*B
    Dbl2 { g: u8, dst: H, sa: Sc, a: H, sb: Sc, d: u8 },
    /// entry 0 multiscalar_mul (constant time), 1 vartime_multiscalar_mul, 2 optional_multiscalar_mul.
    /// hs[i] = None injects a None point (only meaningful for entry 2). it = iterator kind.
    Msm { g: u8, dst: H, entry: u8, ss: Vec<Sc>, hs: Vec<Option<H>>, it: u8, d: u8 },
    /// precomputed multiscalar: statics st with static scalars ss (may be fewer than st), dynamic
    /// scalars ds and points dh. entry 0 vartime_multiscalar_mul (static only), 1 vartime_mixed,
    /// 2 optional_mixed (None allowed in dh)
    /// it: how the scalar / point streams are delivered: 0 slices, 1 iterators without an exact size hint (filter),
    /// 2 a slice chained with such an iterator
    Pre { g: u8, dst: H, entry: u8, st: Vec<H>, ss: Vec<Sc>, ds: Vec<Sc>, dh: Vec<Option<H>>, d: u8, #[serde(default)] it: u8, #[serde(default)] slot: u8 },
    /// n-th use of a precomputation object created earlier by `Pre` in `slot` (same static points, new scalars)
    PUse { g: u8, dst: H, slot: u8, entry: u8, ss: Vec<Sc>, ds: Vec<Sc>, dh: Vec<Option<H>>, d: u8 },
    /// compress handle a and compare with the model's canonical encoding (plus representation invariants)
    Cmp { g: u8, a: H },
    Eq { g: u8, a: H, b: H },
    /// Edwards: is_identity / is_small_order / is_torsion_free
    Pred { a: H },
    /// zeroize in place, must become the identity
    Zero { g: u8, a: H },
    /// Edwards -> Montgomery u
    ToMont { a: H },
    /// the public scalar API (operators, inversion, the ff::Field / PrimeField surface) on two scalars: values are not
    /// decided by any claimed property; the step exists so that checked builds execute it (C11) and configurations are compared on it (C05)
    SArith { a: Sc, b: Sc },
    /// RistrettoPoint::double_and_compress_batch
    Batch { hs: Vec<H> },
    /// replace the internal representative of Ristretto handle a by P + T4[j] (hook)
    Rerep { a: H, j: u8 },
    /// a point drawn through the library's random constructors from the simulated RNG
    /// (g 0: group::Group::random for EdwardsPoint, g 1: RistrettoPoint::random)
    Rand { g: u8, dst: H, rng: Rng },
    /// group-trait cofactor API on Edwards handle a. via 0 clear_cofactor (dst = 8P), 1 into_subgroup
    /// (dst = P iff torsion-free), 2 is_torsion_free / is_small_order through the trait
    Cofac { dst: H, a: H, via: u8 },
    /// Ristretto handle from an Edwards handle: dst = 2 * E[a] wrapped (hook); gives Ristretto values
    /// whose representative carries a history
    FromEd { dst: H, a: H },

    // ------------------------------------------------------------------ wire family
    /// X25519 party p obtains a secret. fl: 0 EphemeralSecret, 1 ReusableSecret, 2 StaticSecret
    /// (random_from_rng), 3 StaticSecret::from(bytes), 4 bare x25519(), 5 MontgomeryPoint::mul_clamped,
    /// 6 Ed25519 identity (to_scalar_bytes / to_montgomery)
    XKey { p: u8, fl: u8, rng: Rng },
    /// party p receives pk and derives a shared secret (twice = duplicate delivery)
    /// peer = Some(q): pk is q's honest, unmodified public key (agreement is then checked)
    XDh { p: u8, pk: B, peer: Option<u8> },
    XRaw { k: B, u: B },
    /// MontgomeryPoint * Scalar
    MMul { u: B, s: Sc },
    /// MontgomeryPoint::mul_base(s) and mul_base_clamped(s bytes)
    MBase { s: Sc },
    /// mul_bits_be over the first n bits (MSB first within `bits` bytes)
    MBits { u: B, bits: B, n: u16 },
    MToEd { u: B, sign: u8 },
    /// equality and Hash of two u encodings
    MEq { a: B, b: B },
    /// signer s obtains a key. how: 0 generate(rng), 1 from_bytes, 2 from_keypair_bytes(64),
    /// 3 try_from(&[u8]), 4 hazmat ExpandedSecretKey::from_bytes(64), 5 ExpandedSecretKey::from_slice
    SKey { s: u8, how: u8, b: B, rng: Option<Rng> },
    /// mode 0 sign, 1 try_sign, 2 sign_prehashed(ctx), 3 with_context(ctx).sign_digest/try_sign_digest,
    /// 4 hazmat raw_sign, 5 hazmat raw_sign_prehashed. ch = chunk lengths used to feed the digest.
    Sign { s: u8, m: B, mode: u8, ctx: Option<B>, ch: Vec<u16> },
    /// mode 0 verify, 1 Verifier::verify, 2 verify_strict, 3 verify_prehashed, 4 verify_prehashed_strict,
    /// 5 hazmat raw_verify::<Sha512>, 6 raw_verify_prehashed, 7 raw_verify::<ChosenDigest> (chosen = digest
    /// output), 8 Context verify_digest, 9 SigningKey::verify wrappers (needs signer s), 10 DigestVerifier
    /// ksrc: how the verifier obtained the key: 0 from the wire bytes, 1 `VerifyingKey::default()` (key bytes ignored),
    /// 2 decoded point converted with `From<EdwardsPoint>` (canonical re-encoding)
    Ver { mode: u8, key: B, m: B, sig: B, ctx: Option<B>, ch: Vec<u16>, chosen: Option<B>, d: u8, #[serde(default)] ksrc: u8,
          /// the signature was produced by an honest signer (for this key and message, under some context)
          #[serde(default)] hon: bool },
    /// append to batch queue q
    BQ { q: u8, m: B, sig: B, key: B },
    /// verify_batch on queue q. var 0 as is, 1 twice (repetition), 2 permuted by arg, 3 entry arg[0]
    /// duplicated, 4 mismatched lengths (arg = [nm, ns, nk]); clear = drop the queue afterwards
    BFlush { q: u8, var: u8, arg: Vec<u16>, d: u8, clear: bool },
    /// Ed25519 -> X25519 conversions of signer s
    SConv { s: u8 },
    /// total decoders / constructors on untrusted bytes (C15). ty selects the entry point.
    Decode { ty: u8, b: B },

    // ------------------------------------------------------------------ disk family
    /// store value v of type ty in format fmt (0 bincode, 1 json), then enumerate every fault on the
    /// stored stream and load each corrupted stream
    Disk { ty: u8, v: B, fmt: u8 },
    /// serialise value v (canonical bytes) of type ty in format fmt; the stream must be the canonical one
    Store { ty: u8, v: B, fmt: u8 },
    /// one concrete load of a (possibly corrupted) stream
    Load { ty: u8, fmt: u8, stream: B },
    /// load through the fault-injecting serde Deserializer: deliver `v` as (shape 0 seq of u8, 1 borrowed
    /// bytes, 2 owned byte buf, 3 tuple) with `extra` trailing elements, truncated to `len` elements,
    /// error injected at element `err_at` (65535 = none), trailing element kind `tk`
    /// (0 valid u8, 1 element that fails to parse as u8)
    SimFmt { ty: u8, v: B, shape: u8, len: u16, extra: u16, err_at: u16, tk: u8 },
}

impl Step {
    pub fn kind(&self) -> &'static str {
        match self {
            Step::Dec { .. } => "Dec",
            Step::Const { .. } => "Const",
            Step::Uni { .. } => "Uni",
            Step::Bin { .. } => "Bin",
            Step::Neg { .. } => "Neg",
            Step::Dbl { .. } => "Dbl",
            Step::Cof { .. } => "Cof",
            Step::Sum { .. } => "Sum",
            Step::Sel { .. } => "Sel",
            Step::Mul { .. } => "Mul",
            Step::MulBase { .. } => "MulBase",
            Step::Clamp { .. } => "Clamp",
            Step::Table { .. } => "Table",
            Step::TUse { .. } => "TUse",
            Step::PUse { .. } => "PUse",
            Step::Dbl2 { .. } => "Dbl2",
            Step::Msm { .. } => "Msm",
            Step::Pre { .. } => "Pre",
            Step::Cmp { .. } => "Cmp",
            Step::Eq { .. } => "Eq",
            Step::Pred { .. } => "Pred",
            Step::Zero { .. } => "Zero",
            Step::SArith { .. } => "SArith",
            Step::ToMont { .. } => "ToMont",
            Step::Batch { .. } => "Batch",
            Step::Rerep { .. } => "Rerep",
            Step::FromEd { .. } => "FromEd",
            Step::Rand { .. } => "Rand",
            Step::Cofac { .. } => "Cofac",
            Step::MBase { .. } => "MBase",
            Step::XKey { .. } => "XKey",
            Step::XDh { .. } => "XDh",
            Step::XRaw { .. } => "XRaw",
            Step::MMul { .. } => "MMul",
            Step::MBits { .. } => "MBits",
            Step::MToEd { .. } => "MToEd",
            Step::MEq { .. } => "MEq",
            Step::SKey { .. } => "SKey",
            Step::Sign { .. } => "Sign",
            Step::Ver { .. } => "Ver",
            Step::BQ { .. } => "BQ",
            Step::BFlush { .. } => "BFlush",
            Step::SConv { .. } => "SConv",
            Step::Decode { .. } => "Decode",
            Step::Disk { .. } => "Disk",
            Step::Store { .. } => "Store",
            Step::Load { .. } => "Load",
            Step::SimFmt { .. } => "SimFmt",
        }
    }
}

#[derive(Clone, Debug, Serialize, Deserialize, PartialEq)]
pub struct Plan {
    pub family: String,
    /// property the workload was focused on
    pub focus: String,
    pub seed: u64,
    pub run: u64,
    /// faults injected while generating (kind -> count), informational: the steps are what is replayed
    pub faults: BTreeMap<String, u64>,
    /// logical ticks of the simulated network covered while generating
    pub ticks: u64,
    pub steps: Vec<Step>,
}

#[derive(Clone, Debug, Serialize, Deserialize, PartialEq)]
pub struct Violation {
    /// properties this step is evidence for
    pub props: Vec<String>,
    pub step: usize,
    pub step_kind: String,
    /// stable class used while shrinking: "mismatch" | "panic" | "invariant:<which>"
    pub class: String,
    pub detail: String,
}

#[derive(Clone, Debug, Serialize, Deserialize)]
pub struct ReplayFile {
    pub version: u32,
    pub property: String,
    /// build the violation was observed in (tag, tables, legacy, profile)
    pub build: BTreeMap<String, String>,
    pub plan: Plan,
    pub violation: Violation,
    /// narrow signature for known-findings matching
    pub signature: String,
    pub original_steps: usize,
}

pub type Counters = BTreeMap<String, u64>;

pub fn bump(c: &mut Counters, k: &str) {
    *c.entry(k.to_string()).or_insert(0) += 1;
}

pub fn bump_by(c: &mut Counters, k: &str, n: u64) {
    *c.entry(k.to_string()).or_insert(0) += n;
}

pub fn merge(into: &mut Counters, from: &Counters) {
    for (k, v) in from {
        *into.entry(k.clone()).or_insert(0) += *v;
    }
}
