//! The single source of randomness: xoshiro256** seeded through splitmix64. Hand-written so the
//! stream does not depend on any crate version.

#[derive(Clone, Debug)]
pub struct Prng {
    s: [u64; 4],
}

pub fn splitmix64(state: &mut u64) -> u64 {
    *state = state.wrapping_add(0x9e37_79b9_7f4a_7c15);
    let mut z = *state;
    z = (z ^ (z >> 30)).wrapping_mul(0xbf58_476d_1ce4_e5b9);
    z = (z ^ (z >> 27)).wrapping_mul(0x94d0_49bb_1331_11eb);
    z ^ (z >> 31)
}

/// Seed of run `i` of family `fam` under the batch seed.
pub fn run_seed(seed: u64, fam: u64, i: u64) -> u64 {
    let mut s = seed ^ fam.wrapping_mul(0xa076_1d64_78bd_642f);
    let a = splitmix64(&mut s);
    let mut t = a ^ i.wrapping_mul(0xe703_7ed1_a0b4_28db);
    splitmix64(&mut t)
}

impl Prng {
    pub fn new(seed: u64) -> Prng {
        let mut sm = seed;
        let s = [splitmix64(&mut sm), splitmix64(&mut sm), splitmix64(&mut sm), splitmix64(&mut sm)];
        Prng { s }
    }

    pub fn next(&mut self) -> u64 {
        let r = self.s[1].wrapping_mul(5).rotate_left(7).wrapping_mul(9);
        let t = self.s[1] << 17;
        self.s[2] ^= self.s[0];
        self.s[3] ^= self.s[1];
        self.s[1] ^= self.s[2];
        self.s[0] ^= self.s[3];
        self.s[2] ^= t;
        self.s[3] = self.s[3].rotate_left(45);
        r
    }

    /// uniform in 0..n (n > 0); modulo bias is irrelevant here
    pub fn below(&mut self, n: u64) -> u64 {
        self.next() % n
    }

    pub fn range(&mut self, lo: u64, hi_incl: u64) -> u64 {
        lo + self.below(hi_incl - lo + 1)
    }

    pub fn chance(&mut self, num: u64, den: u64) -> bool {
        self.below(den) < num
    }

    pub fn coin(&mut self) -> bool {
        self.next() & 1 == 1
    }

    pub fn bytes(&mut self, n: usize) -> Vec<u8> {
        let mut v = Vec::with_capacity(n + 8);
        while v.len() < n {
            v.extend_from_slice(&self.next().to_le_bytes());
        }
        v.truncate(n);
        v
    }

    pub fn arr32(&mut self) -> [u8; 32] {
        let mut a = [0u8; 32];
        a.copy_from_slice(&self.bytes(32));
        a
    }

    pub fn pick<'a, T>(&mut self, xs: &'a [T]) -> &'a T {
        &xs[self.below(xs.len() as u64) as usize]
    }

    /// weighted choice: returns index
    pub fn weighted(&mut self, w: &[u32]) -> usize {
        let tot: u64 = w.iter().map(|&x| x as u64).sum();
        let mut r = self.below(tot.max(1));
        for (i, &x) in w.iter().enumerate() {
            if r < x as u64 {
                return i;
            }
            r -= x as u64;
        }
        w.len() - 1
    }
}

pub fn fnv1a(data: &[u8]) -> u64 {
    let mut h = 0xcbf2_9ce4_8422_2325u64;
    for b in data {
        h ^= *b as u64;
        h = h.wrapping_mul(0x0000_0100_0000_01b3);
    }
    h
}
