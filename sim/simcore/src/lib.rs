//! Shared simulator core: PRNG, plan vocabulary (what a replay file contains), counters.

pub mod plan;
pub mod prng;

pub use plan::*;
pub use prng::{fnv1a, run_seed, Prng};
