//! The seams the simulator owns inside the driver process: dispatcher answer, RNG, digest,
//! iterator kinds, panic capture.

use std::cell::{Cell, RefCell};
use std::collections::VecDeque;

// ------------------------------------------------------------------ dispatcher seam

thread_local! {
    /// preferred backend for the current step: 0 auto (CPUID), 1 serial, 2 avx2, 3 avx512ifma
    static DISPATCH_PREF: Cell<u8> = const { Cell::new(0) };
    /// [calls answered auto, serial, avx2, ifma, preference not available]
    static DISPATCH_COUNTS: Cell<[u64; 5]> = const { Cell::new([0; 5]) };
}

static COMPILED_MASK: std::sync::atomic::AtomicU8 = std::sync::atomic::AtomicU8::new(0);
/// 0 = honour each step's own preference; 1..3 = answer every dispatch with this backend (policy
/// "always serial / always AVX2 / always IFMA" of the cross-configuration check)
static FORCE_DISPATCH: std::sync::atomic::AtomicU8 = std::sync::atomic::AtomicU8::new(0);

pub fn set_force_dispatch(v: u8) {
    FORCE_DISPATCH.store(v, std::sync::atomic::Ordering::Relaxed);
}

pub fn set_dispatch(pref: u8) {
    DISPATCH_PREF.with(|c| c.set(pref));
}

pub fn take_dispatch_counts() -> [u64; 5] {
    DISPATCH_COUNTS.with(|c| c.replace([0; 5]))
}

pub fn compiled_mask_global() -> u8 {
    COMPILED_MASK.load(std::sync::atomic::Ordering::Relaxed)
}

fn cpu_has(backend: u8) -> bool {
    match backend {
        1 => true,
        #[cfg(target_arch = "x86_64")]
        2 => std::is_x86_feature_detected!("avx2"),
        #[cfg(target_arch = "x86_64")]
        3 => std::is_x86_feature_detected!("avx512ifma") && std::is_x86_feature_detected!("avx512vl"),
        _ => false,
    }
}

/// Called by curve25519-dalek's get_selected_backend() when built with --cfg curve25519_dalek_verif.
#[no_mangle]
pub extern "Rust" fn curve25519_dalek_verif_pick_backend(compiled: u8) -> u8 {
    COMPILED_MASK.store(compiled, std::sync::atomic::Ordering::Relaxed);
    let forced = FORCE_DISPATCH.load(std::sync::atomic::Ordering::Relaxed);
    let pref = if forced != 0 { forced } else { DISPATCH_PREF.with(|c| c.get()) };
    let ok = pref != 0 && (compiled >> (pref - 1)) & 1 == 1 && cpu_has(pref);
    let ans = if ok { pref } else { 0 };
    DISPATCH_COUNTS.with(|c| {
        let mut v = c.get();
        if pref != 0 && !ok {
            v[4] += 1;
        } else {
            v[ans as usize] += 1;
        }
        c.set(v);
    });
    ans
}

// ------------------------------------------------------------------ batch-coefficient seam (adaptive adversary)

thread_local! {
    static LAST_BATCH_ZS: RefCell<Vec<[u8; 32]>> = const { RefCell::new(Vec::new()) };
}

/// Called through curve25519_dalek::verif_hooks::observe_scalars (ed25519-dalek's verify_batch reports its
/// coefficients there when built with --cfg curve25519_dalek_verif).
#[no_mangle]
pub extern "Rust" fn curve25519_dalek_verif_observe_scalars(tag: &[u8], zs: &[curve25519_dalek::Scalar]) {
    if tag == b"ed25519-batch-coefficients" {
        LAST_BATCH_ZS.with(|v| {
            let mut v = v.borrow_mut();
            v.clear();
            v.extend(zs.iter().map(|z| z.to_bytes()));
        });
    }
}

pub fn last_batch_coefficients() -> Vec<[u8; 32]> {
    LAST_BATCH_ZS.with(|v| v.borrow().clone())
}

// ------------------------------------------------------------------ RNG seam

/// Hands out the plan's byte stream cyclically and records what it handed out.
pub struct SimRng {
    stream: Vec<u8>,
    pos: usize,
    pub record: Vec<u8>,
}

impl SimRng {
    pub fn new(stream: &[u8]) -> SimRng {
        let stream = if stream.is_empty() { vec![0u8] } else { stream.to_vec() };
        SimRng { stream, pos: 0, record: Vec::new() }
    }
    fn byte(&mut self) -> u8 {
        let b = self.stream[self.pos % self.stream.len()];
        self.pos += 1;
        self.record.push(b);
        b
    }
}

impl rand_core::RngCore for SimRng {
    fn next_u32(&mut self) -> u32 {
        let mut b = [0u8; 4];
        self.fill_bytes(&mut b);
        u32::from_le_bytes(b)
    }
    fn next_u64(&mut self) -> u64 {
        let mut b = [0u8; 8];
        self.fill_bytes(&mut b);
        u64::from_le_bytes(b)
    }
    fn fill_bytes(&mut self, dest: &mut [u8]) {
        for d in dest.iter_mut() {
            *d = self.byte();
        }
    }
    fn try_fill_bytes(&mut self, dest: &mut [u8]) -> Result<(), rand_core::Error> {
        self.fill_bytes(dest);
        Ok(())
    }
}
impl rand_core::CryptoRng for SimRng {}

/// the first n bytes a SimRng over `stream` hands out (what the model is told)
pub fn rng_prefix(stream: &[u8], n: usize) -> Vec<u8> {
    let s: &[u8] = if stream.is_empty() { &[0u8] } else { stream };
    (0..n).map(|i| s[i % s.len()]).collect()
}

// ------------------------------------------------------------------ digest seam

thread_local! {
    static CHOSEN: RefCell<VecDeque<[u8; 64]>> = const { RefCell::new(VecDeque::new()) };
}

pub fn chosen_push(out: [u8; 64]) {
    CHOSEN.with(|q| q.borrow_mut().push_back(out));
}
pub fn chosen_clear() {
    CHOSEN.with(|q| q.borrow_mut().clear());
}

/// STUB digest: output chosen by the simulator (queue), SHA-512 of the input once the queue is empty.
#[derive(Clone, Default)]
pub struct ChosenDigest {
    inner: sha2::Sha512,
}

impl digest::HashMarker for ChosenDigest {}
impl digest::OutputSizeUser for ChosenDigest {
    type OutputSize = digest::consts::U64;
}
impl digest::Update for ChosenDigest {
    fn update(&mut self, data: &[u8]) {
        digest::Update::update(&mut self.inner, data);
    }
}
impl digest::FixedOutput for ChosenDigest {
    fn finalize_into(self, out: &mut digest::Output<Self>) {
        let chosen = CHOSEN.with(|q| q.borrow_mut().pop_front());
        match chosen {
            Some(c) => out.copy_from_slice(&c),
            None => digest::FixedOutput::finalize_into(self.inner, out),
        }
    }
}
impl digest::Reset for ChosenDigest {
    fn reset(&mut self) {
        digest::Reset::reset(&mut self.inner);
    }
}
impl digest::FixedOutputReset for ChosenDigest {
    fn finalize_into_reset(&mut self, out: &mut digest::Output<Self>) {
        let me = core::mem::take(self);
        digest::FixedOutput::finalize_into(me, out);
    }
}

/// A second 64-byte message digest for the prehash position (the Ed25519ph entry points are generic over it):
/// SHA-512 of the input followed by the byte 0xA5.
#[derive(Clone, Default)]
pub struct AltDigest {
    inner: sha2::Sha512,
}
pub const ALT_SUFFIX: u8 = 0xa5;
impl digest::HashMarker for AltDigest {}
impl digest::OutputSizeUser for AltDigest {
    type OutputSize = digest::consts::U64;
}
impl digest::Update for AltDigest {
    fn update(&mut self, data: &[u8]) {
        digest::Update::update(&mut self.inner, data);
    }
}
impl digest::FixedOutput for AltDigest {
    fn finalize_into(mut self, out: &mut digest::Output<Self>) {
        digest::Update::update(&mut self.inner, &[ALT_SUFFIX]);
        digest::FixedOutput::finalize_into(self.inner, out);
    }
}
impl digest::Reset for AltDigest {
    fn reset(&mut self) {
        digest::Reset::reset(&mut self.inner);
    }
}
impl digest::FixedOutputReset for AltDigest {
    fn finalize_into_reset(&mut self, out: &mut digest::Output<Self>) {
        let me = core::mem::take(self);
        digest::FixedOutput::finalize_into(me, out);
    }
}
/// `data` fed to an AltDigest in the given chunk sizes
pub fn alt_chunked(data: &[u8], chunks: &[u16]) -> AltDigest {
    AltDigest { inner: sha512_chunked(data, chunks) }
}

/// the model's view of the same stub
pub struct ChosenH(pub VecDeque<[u8; 64]>);
impl refmodel::eddsa::H512 for ChosenH {
    fn hash(&mut self, parts: &[&[u8]]) -> [u8; 64] {
        match self.0.pop_front() {
            Some(c) => c,
            None => refmodel::eddsa::sha512(parts),
        }
    }
}

/// feed `data` to a real SHA-512 in the chunk sizes given (cyclically; 0-length chunks allowed)
pub fn sha512_chunked(data: &[u8], chunks: &[u16]) -> sha2::Sha512 {
    use sha2::Digest;
    let mut h = sha2::Sha512::new();
    if chunks.is_empty() {
        h.update(data);
        return h;
    }
    let mut pos = 0;
    let mut i = 0;
    let mut zero_run = 0;
    while pos < data.len() {
        let mut n = chunks[i % chunks.len()] as usize;
        i += 1;
        if n == 0 {
            zero_run += 1;
            h.update([]);
            if zero_run > chunks.len() {
                n = data.len() - pos;
            } else {
                continue;
            }
        }
        zero_run = 0;
        let n = n.min(data.len() - pos);
        h.update(&data[pos..pos + n]);
        pos += n;
    }
    h
}

// ------------------------------------------------------------------ iterator kinds

/// An ExactSizeIterator that is deliberately not TrustedLen (user-defined type), so
/// Vec::from_iter takes the generic path.
pub struct Plain<T> {
    items: std::vec::IntoIter<T>,
}
impl<T> Plain<T> {
    pub fn new(v: Vec<T>) -> Self {
        Plain { items: v.into_iter() }
    }
}
impl<T> Iterator for Plain<T> {
    type Item = T;
    fn next(&mut self) -> Option<T> {
        self.items.next()
    }
    fn size_hint(&self) -> (usize, Option<usize>) {
        let n = self.items.len();
        (n, Some(n))
    }
}
impl<T> ExactSizeIterator for Plain<T> {}

/// An iterator whose size hint is a true but loose bound (lower bound half the length, no upper bound), as
/// filter / flat_map / skip_while adaptors give.
pub struct Loose<T> {
    items: std::vec::IntoIter<T>,
}
impl<T> Loose<T> {
    pub fn new(v: Vec<T>) -> Self {
        Loose { items: v.into_iter() }
    }
}
impl<T> Iterator for Loose<T> {
    type Item = T;
    fn next(&mut self) -> Option<T> {
        self.items.next()
    }
    fn size_hint(&self) -> (usize, Option<usize>) {
        (self.items.len() / 2, None)
    }
}

// ------------------------------------------------------------------ panic capture

thread_local! {
    static LAST_PANIC: RefCell<String> = const { RefCell::new(String::new()) };
}

pub fn install_panic_hook() {
    std::panic::set_hook(Box::new(|info| {
        let msg = if let Some(s) = info.payload().downcast_ref::<&str>() {
            s.to_string()
        } else if let Some(s) = info.payload().downcast_ref::<String>() {
            s.clone()
        } else {
            "panic".to_string()
        };
        let loc = info.location().map(|l| format!("{}:{}", l.file(), l.line())).unwrap_or_default();
        LAST_PANIC.with(|p| *p.borrow_mut() = format!("{} at {}", msg, loc));
    }));
}

/// Run a library call; a panic becomes Err(message).
pub fn guarded<T>(f: impl FnOnce() -> T) -> Result<T, String> {
    match std::panic::catch_unwind(std::panic::AssertUnwindSafe(f)) {
        Ok(v) => Ok(v),
        Err(_) => Err(LAST_PANIC.with(|p| p.borrow().clone())),
    }
}

// ------------------------------------------------------------------ observations

/// What a step lets an observer see: labelled byte strings. Real and model worlds produce one each.
#[derive(Clone, Debug, PartialEq, Eq, Default)]
pub struct Obs(pub Vec<(&'static str, Vec<u8>)>);

impl Obs {
    pub fn new() -> Obs {
        Obs(Vec::new())
    }
    pub fn b(&mut self, label: &'static str, bytes: &[u8]) -> &mut Self {
        self.0.push((label, bytes.to_vec()));
        self
    }
    pub fn f(&mut self, label: &'static str, flag: bool) -> &mut Self {
        self.0.push((label, vec![flag as u8]));
        self
    }
    pub fn n(&mut self, label: &'static str, v: u64) -> &mut Self {
        self.0.push((label, v.to_le_bytes().to_vec()));
        self
    }
    /// model side: "this observable is not decided by the property" (the real value is still logged)
    pub fn any(&mut self, label: &'static str) -> &mut Self {
        self.0.push((label, WILDCARD.to_vec()));
        self
    }
    pub fn hash(&self) -> u64 {
        let mut flat = Vec::new();
        for (l, v) in &self.0 {
            flat.extend_from_slice(l.as_bytes());
            flat.push(0);
            flat.extend_from_slice(&(v.len() as u32).to_le_bytes());
            flat.extend_from_slice(v);
        }
        simcore::fnv1a(&flat)
    }
    /// first difference, human readable
    pub fn diff(&self, model: &Obs) -> Option<String> {
        if self == model {
            return None;
        }
        for i in 0..self.0.len().max(model.0.len()) {
            let r = self.0.get(i);
            let m = model.0.get(i);
            if let (Some(r), Some(m)) = (r, m) {
                if r.0 == m.0 && m.1 == WILDCARD {
                    continue;
                }
            }
            if r != m {
                let show = |x: Option<&(&'static str, Vec<u8>)>| match x {
                    Some((l, v)) => format!("{}={}", l, refmodel::hex(&v[..v.len().min(80)])),
                    None => "<absent>".to_string(),
                };
                return Some(format!("item {}: real {} / model {}", i, show(r), show(m)));
            }
        }
        None
    }
}

pub const WILDCARD: &[u8] = b"\xff*any*\xff";

pub enum Out {
    /// a referenced handle / party does not exist (its defining step failed or was removed)
    Skip,
    Obs(Obs),
}
