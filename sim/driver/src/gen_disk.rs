//! Generator for the `disk` family: which values are stored, in which format. The fault positions are
//! not sampled: the executor enumerates them completely for each stored record.

use crate::dict;
use refmodel::ed;
use simcore::{bump, Counters, Plan, Prng, Step, B};

pub fn value_for(rng: &mut Prng, ty: u8, c: &mut Counters) -> Vec<u8> {
    let edge = rng.chance(1, 3);
    if edge {
        bump(c, "gen:edge_value");
    }
    match ty {
        0 => {
            if edge {
                let l1 = refmodel::sc::l().sub_borrow(&refmodel::U256::ONE).0.to_le_bytes();
                let cands: [[u8; 32]; 4] = [[0u8; 32], refmodel::Sc::ONE.to_bytes(), l1, refmodel::Sc::from_u64(255).to_bytes()];
                cands[rng.below(4) as usize].to_vec()
            } else {
                refmodel::Sc::from_bytes_mod_order(&rng.arr32()).to_bytes().to_vec()
            }
        }
        1 | 7 => {
            if edge {
                let t = ed::torsion();
                match rng.below(3) {
                    0 => t[rng.below(8) as usize].encode().to_vec(),
                    1 => ed::basepoint().encode().to_vec(),
                    _ => dict::random_point(rng).add(&t[1 + rng.below(7) as usize]).encode().to_vec(),
                }
            } else {
                dict::random_point(rng).encode().to_vec()
            }
        }
        3 => {
            if edge {
                refmodel::ristretto::encode(&ed::Pt::IDENTITY).to_vec()
            } else {
                refmodel::ristretto::encode(&dict::random_point(rng).dbl()).to_vec()
            }
        }
        8 => {
            if edge {
                vec![[0u8, 0xff, 0x7f][rng.below(3) as usize]; 64]
            } else {
                rng.bytes(64)
            }
        }
        _ => {
            if edge {
                match rng.below(4) {
                    0 => vec![0u8; 32],
                    1 => vec![0xff; 32],
                    2 => dict::p_plus(rng.below(19)).to_vec(),
                    _ => {
                        // decimal-width edges: elements 9/10, 99/100, 255
                        let pool = [0u8, 9, 10, 99, 100, 199, 200, 255];
                        (0..32).map(|_| pool[rng.below(8) as usize]).collect()
                    }
                }
            } else {
                rng.bytes(32)
            }
        }
    }
}

pub fn generate(seed: u64, run: u64, focus: &str, _thorough: bool) -> Plan {
    let fam = 0x64_69_73_6b ^ simcore::fnv1a(focus.as_bytes());
    let mut rng = Prng::new(simcore::run_seed(seed, fam, run));
    let mut c = Counters::new();
    let mut steps = Vec::new();
    // one stored record per run, type cycling with the run index so every type is covered evenly
    let ty = ((run + rng.below(2) * 0) % crate::disk::NTYPES as u64) as u8;
    // 0 bincode (legacy: fixed-width little-endian), 1 JSON, 2 bincode varint, 3 bincode big-endian
    let fmt = *rng.pick(&[0u8, 0, 1, 1, 1, 2, 3]);
    let v = value_for(&mut rng, ty, &mut c);
    bump(&mut c, &format!("gen:type_{}", crate::disk::ty_name(ty)));
    bump(&mut c, ["gen:format_bincode", "gen:format_json", "gen:format_bincode_varint", "gen:format_bincode_bigendian"][fmt as usize]);
    bump(&mut c, "runs:fault_injecting");
    steps.push(Step::Disk { ty, v: B(v), fmt });
    Plan { family: "disk".into(), focus: focus.into(), seed, run, faults: c, ticks: 0, steps }
}
