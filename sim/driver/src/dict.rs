//! Mallory's dictionaries: structured Byzantine values, all derived from the reference model
//! (never copied from the code under test). Every function that injects a fault bumps a counter.

use refmodel::big::U256;
use refmodel::ed::{self, Pt};
use refmodel::fp::{Fp, P};
use refmodel::sc;
use simcore::{bump, Counters, Prng, Sc, B};

pub fn p_plus(k: u64) -> [u8; 32] {
    P.add_carry(&U256::from_u64(k)).0.to_le_bytes()
}

/// A wire encoding for an Edwards point slot. `honest` is the encoding an honest peer would send.
/// Returns the bytes that arrive after the adversary had its way.
pub fn edwards_wire(rng: &mut Prng, honest: Option<[u8; 32]>, faulty: bool, c: &mut Counters) -> Vec<u8> {
    let h = honest.unwrap_or_else(|| random_point(rng).encode());
    if !faulty {
        bump(c, "wire:honest");
        return h.to_vec();
    }
    let t = ed::torsion();
    match rng.below(16) {
        15 => {
            bump(c, "fault:enc_structured_words");
            structured_words(rng).to_vec()
        }
        14 => {
            bump(c, "fault:enc_structured_near_p");
            // keep drawing until the y decodes about half of the time (both outcomes are interesting)
            near_p_structured(rng).to_vec()
        }
        0 => {
            bump(c, "fault:enc_noncanonical_y");
            // y + p for y < 19, either sign bit
            let mut b = p_plus(rng.below(19));
            if rng.coin() {
                b[31] |= 0x80;
            }
            b.to_vec()
        }
        1 => {
            bump(c, "fault:enc_negative_zero");
            // x = 0 points (y = 1, y = -1) with the sign bit set, canonical or not
            let mut b = match rng.below(3) {
                0 => Fp::ONE.to_bytes(),
                1 => Fp::ONE.neg().to_bytes(),
                _ => p_plus(1),
            };
            b[31] |= 0x80;
            b.to_vec()
        }
        2 => {
            bump(c, "fault:enc_torsion_point");
            t[rng.below(8) as usize].encode().to_vec()
        }
        3 => {
            bump(c, "fault:enc_torsion_noncanonical");
            // torsion points with y < 19: identity (y=1) and the order-4 points (y=0)
            let mut b = if rng.coin() { p_plus(0) } else { p_plus(1) };
            if rng.coin() {
                b[31] |= 0x80;
            }
            b.to_vec()
        }
        4 => {
            bump(c, "fault:enc_mixed_order");
            let p = Pt::decode(&h).unwrap_or(Pt::IDENTITY);
            p.add(&t[1 + rng.below(7) as usize]).encode().to_vec()
        }
        5 => {
            bump(c, "fault:enc_off_curve");
            loop {
                let mut b = rng.arr32();
                if rng.coin() {
                    // small y
                    b = [0u8; 32];
                    b[0] = rng.below(256) as u8;
                }
                if Pt::decode(&b).is_none() {
                    return b.to_vec();
                }
            }
        }
        6 => {
            bump(c, "fault:enc_all_ones");
            // 2^255-1 and neighbours: decoded without reduction into maximal limbs
            let mut b = [0xffu8; 32];
            b[0] = 0xff - rng.below(40) as u8;
            if rng.coin() {
                b[31] = 0x7f;
            }
            b.to_vec()
        }
        7 => {
            bump(c, "fault:bitflip");
            let mut b = h;
            let i = rng.below(256) as usize;
            b[i / 8] ^= 1 << (i % 8);
            b.to_vec()
        }
        8 => {
            bump(c, "fault:random_bytes");
            rng.bytes(32)
        }
        9 => {
            bump(c, "fault:truncate");
            let n = rng.below(32) as usize;
            h[..n].to_vec()
        }
        10 => {
            bump(c, "fault:extend");
            let mut v = h.to_vec();
            let n = 1 + rng.below(48) as usize;
            v.extend(rng.bytes(n));
            v
        }
        11 => {
            bump(c, "fault:enc_sign_flip");
            let mut b = h;
            b[31] ^= 0x80;
            b.to_vec()
        }
        12 => {
            bump(c, "fault:enc_small_y");
            let mut b = [0u8; 32];
            b[0] = rng.below(32) as u8;
            if rng.coin() {
                b[31] = 0x80;
            }
            b.to_vec()
        }
        _ => {
            bump(c, "fault:enc_zero_or_ff");
            if rng.coin() {
                vec![0u8; 32]
            } else {
                vec![0xffu8; 32]
            }
        }
    }
}

pub fn random_point(rng: &mut Prng) -> Pt {
    loop {
        if let Some(p) = Pt::decode(&rng.arr32()) {
            return p;
        }
    }
}

/// A wire encoding for a Ristretto slot.
pub fn ristretto_wire(rng: &mut Prng, honest: Option<[u8; 32]>, faulty: bool, c: &mut Counters) -> Vec<u8> {
    let h = honest.unwrap_or_else(|| refmodel::ristretto::encode(&random_point(rng).dbl()));
    if !faulty {
        bump(c, "wire:honest");
        return h.to_vec();
    }
    match rng.below(14) {
        13 => {
            bump(c, "fault:enc_structured_words");
            let mut b = structured_words(rng);
            if rng.coin() {
                b[0] &= 0xfe;
                b[31] &= 0x7f;
            }
            b.to_vec()
        }
        12 => {
            bump(c, "fault:enc_structured_near_p");
            let mut b = near_p_structured(rng);
            b[0] &= 0xfe; // non-negative s
            b[31] &= 0x7f;
            b.to_vec()
        }
        0 => {
            bump(c, "fault:ris_s_plus_p");
            // non-canonical s = s0 + p for small s0 (only values below 19 fit)
            p_plus(rng.below(19)).to_vec()
        }
        1 => {
            bump(c, "fault:ris_bit255");
            let mut b = h;
            b[31] |= 0x80;
            b.to_vec()
        }
        2 => {
            bump(c, "fault:ris_negative_s");
            Fp::from_bytes(&h).neg().to_bytes().to_vec()
        }
        3 => {
            bump(c, "fault:ris_edwards_encoding");
            random_point(rng).encode().to_vec()
        }
        4 => {
            bump(c, "fault:bitflip");
            let mut b = h;
            let i = rng.below(256) as usize;
            b[i / 8] ^= 1 << (i % 8);
            b.to_vec()
        }
        5 => {
            bump(c, "fault:random_bytes");
            rng.bytes(32)
        }
        6 => {
            bump(c, "fault:ris_small_s");
            let mut b = [0u8; 32];
            b[0] = rng.below(64) as u8;
            b.to_vec()
        }
        7 => {
            bump(c, "fault:truncate");
            let n = rng.below(32) as usize;
            h[..n].to_vec()
        }
        8 => {
            bump(c, "fault:extend");
            let mut v = h.to_vec();
            let n = 1 + rng.below(48) as usize;
            v.extend(rng.bytes(n));
            v
        }
        9 => {
            bump(c, "fault:ris_special_s");
            // s = 1, s = -1 (y = 0), s = sqrt(-1), p-1, (p-1)/2
            let vals = [
                Fp::ONE,
                Fp::ONE.neg(),
                Fp::sqrt_m1(),
                Fp::sqrt_m1().neg(),
                Fp(P.shr(1)),
                Fp::from_u64(2).inv(),
            ];
            vals[rng.below(vals.len() as u64) as usize].to_bytes().to_vec()
        }
        10 => {
            bump(c, "fault:enc_all_ones");
            let mut b = [0xffu8; 32];
            b[0] = 0xff - rng.below(40) as u8;
            if rng.coin() {
                b[31] = 0x7f;
            }
            b.to_vec()
        }
        _ => {
            bump(c, "fault:ris_torsion_shifted_encoding");
            // a valid s with low bit forced: negative s of some other element
            let mut b = h;
            b[0] ^= 1;
            b.to_vec()
        }
    }
}

fn u256_bytes(v: U256) -> [u8; 32] {
    v.to_le_bytes()
}

/// Scalars: dictionary edge values or PRNG. `allow_unreduced` permits kind 2 (integers below 2^255).
pub fn scalar(rng: &mut Prng, allow_unreduced: bool, c: &mut Counters) -> Sc {
    let l = sc::l();
    let pick = rng.below(100);
    if pick < 45 {
        // uniformly random canonical scalar
        let b = refmodel::Sc::from_bytes_mod_order(&rng.arr32()).to_bytes();
        return Sc { b: B(b.to_vec()), k: 1 };
    }
    if pick < 55 {
        return Sc { b: B(rng.bytes(32)), k: 0 };
    }
    if pick < 65 && allow_unreduced {
        bump(c, "scalar:unreduced_random");
        return Sc { b: B(rng.bytes(32)), k: 2 };
    }
    if (84..92).contains(&pick) {
        bump(c, "scalar:structured_words");
        let b = structured_words(rng);
        let k = if refmodel::Sc::is_canonical_bytes(&b) { 1 } else if allow_unreduced && b[31] & 0x80 == 0 && rng.coin() { 2 } else { 0 };
        return Sc { b: B(b.to_vec()), k };
    }
    if pick >= 92 {
        bump(c, "scalar:near_l_structured");
        let b = near_l_structured(rng);
        let k = if refmodel::Sc::is_canonical_bytes(&b) { 1 } else if allow_unreduced && b[31] & 0x80 == 0 { 2 } else { 0 };
        return Sc { b: B(b.to_vec()), k };
    }
    let mut two = |e: usize| -> U256 {
        let mut w = [0u64; 4];
        w[e / 64] = 1u64 << (e % 64);
        U256(w)
    };
    let one = U256::ONE;
    let cands: Vec<(U256, &'static str)> = vec![
        (U256::ZERO, "zero"),
        (one, "one"),
        (U256::from_u64(2), "two"),
        (U256::from_u64(8), "eight"),
        (l.sub_borrow(&one).0, "l-1"),
        (l, "l"),
        (l.add_carry(&one).0, "l+1"),
        (l.shr(1), "l/2"),
        (two(252), "2^252"),
        (two(252).sub_borrow(&one).0, "2^252-1"),
        (two(252).add_carry(&one).0, "2^252+1"),
        (two(253).sub_borrow(&one).0, "2^253-1"),
        (two(254), "2^254"),
        (two(255).sub_borrow(&one).0, "2^255-1"),
        (U256([u64::MAX; 4]), "2^256-1"),
        (U256([0x8888_8888_8888_8888; 4]), "0x88..88"),
        (U256([0x7777_7777_7777_7777; 4]), "0x77..77"),
        (U256([0xffff_ffff_ffff_ffff, 0xffff_ffff_ffff_ffff, 0xffff_ffff_ffff_ffff, 0x0fff_ffff_ffff_ffff]), "2^252-1 all ones"),
        (U256([0x8080_8080_8080_8080; 4]), "0x80..80"),
        (U256([0xf0f0_f0f0_f0f0_f0f0; 4]), "0xf0..f0"),
        (two(64).sub_borrow(&one).0, "2^64-1"),
        (two(64), "2^64"),
        (two(128).sub_borrow(&one).0, "2^128-1"),
        (two(192), "2^192"),
        (l.mul_small(7).0, "7l"),
    ];
    let (v, name) = cands[rng.below(cands.len() as u64) as usize];
    bump(c, &format!("scalar:dict:{}", name));
    let b = u256_bytes(v);
    let k = if allow_unreduced && rng.chance(2, 3) {
        2
    } else if refmodel::Sc::is_canonical_bytes(&b) {
        1
    } else {
        0
    };
    Sc { b: B(b.to_vec()), k }
}

/// canonical scalar only (for entry points whose domain is canonical scalars)
pub fn scalar_canonical(rng: &mut Prng, c: &mut Counters) -> Sc {
    let s = scalar(rng, false, c);
    if s.k == 1 {
        s
    } else {
        Sc { b: B(refmodel::Sc::from_bytes_mod_order(&s.b.a32()).to_bytes().to_vec()), k: 1 }
    }
}

/// Montgomery u-coordinates for the wire: honest, small-order, twist, non-canonical.
pub fn montgomery_wire(rng: &mut Prng, honest: [u8; 32], faulty: bool, c: &mut Counters) -> [u8; 32] {
    if !faulty {
        bump(c, "wire:honest");
        return honest;
    }
    let t = ed::torsion();
    match rng.below(13) {
        12 => {
            bump(c, "fault:enc_structured_words");
            structured_words(rng)
        }
        11 => {
            bump(c, "fault:enc_structured_near_p");
            near_p_structured(rng)
        }
        0 => {
            bump(c, "fault:u_small_order");
            // u of the torsion points: 0, 1, -1 and the two order-8 values
            let p = t[rng.below(8) as usize];
            let mut b = p.to_montgomery_u().to_bytes();
            if rng.coin() {
                b[31] |= 0x80;
            }
            b
        }
        1 => {
            bump(c, "fault:u_noncanonical");
            let mut b = p_plus(rng.below(19));
            if rng.coin() {
                b[31] |= 0x80;
            }
            b
        }
        2 => {
            bump(c, "fault:u_minus_one");
            let mut b = Fp::ONE.neg().to_bytes();
            if rng.coin() {
                b[31] |= 0x80;
            }
            b
        }
        3 => {
            bump(c, "fault:u_twist");
            loop {
                let b = rng.arr32();
                if !refmodel::x25519::on_curve(&Fp::from_bytes(&b)) {
                    return b;
                }
            }
        }
        4 => {
            bump(c, "fault:u_all_ones");
            let mut b = [0xffu8; 32];
            b[0] = 0xff - rng.below(40) as u8;
            b
        }
        5 => {
            bump(c, "fault:u_bit255");
            let mut b = honest;
            b[31] |= 0x80;
            b
        }
        6 => {
            bump(c, "fault:bitflip");
            let mut b = honest;
            let i = rng.below(256) as usize;
            b[i / 8] ^= 1 << (i % 8);
            b
        }
        7 => {
            bump(c, "fault:u_twist_small_order");
            // small-order points on the twist: u = -1 has order 4 on the twist ... plus 0 and p-1 variants
            let vals = [Fp::ZERO, Fp::ONE, Fp::ONE.neg()];
            let mut b = vals[rng.below(3) as usize].to_bytes();
            if rng.coin() {
                b = p_plus(rng.below(2));
            }
            b
        }
        8 => {
            bump(c, "fault:random_bytes");
            rng.arr32()
        }
        9 => {
            bump(c, "fault:u_mixed_order");
            // honest point plus a torsion point, via Edwards
            match refmodel::x25519::to_edwards(&honest, 0) {
                Some(p) => p.add(&t[1 + rng.below(7) as usize]).to_montgomery_u().to_bytes(),
                None => honest,
            }
        }
        _ => {
            bump(c, "fault:u_zero");
            [0u8; 32]
        }
    }
}

/// 32 bytes assembled from machine words (64-, 32- or 16-bit grain) each drawn from a small set of patterns: empty,
/// saturated, repeated nibbles 7 / 8 / f, sign-boundary values, or random. Limb-wise and word-wise code (carry
/// chains, recodings, folds, word comparisons) only misbehaves on inputs with such a word next to another.
pub fn structured_words(rng: &mut Prng) -> [u8; 32] {
    const PAT: [u64; 14] = [
        0,
        1,
        u64::MAX,
        u64::MAX - 1,
        0x7777_7777_7777_7777,
        0x8888_8888_8888_8888,
        0x7fff_ffff_ffff_ffff,
        0x8000_0000_0000_0000,
        0x0808_0808_0808_0808,
        0xf7f7_f7f7_f7f7_f7f7,
        0x7878_7878_7878_7878,
        0x8787_8787_8787_8787,
        0xf777_7777_7777_7778,
        0x0fff_ffff_ffff_ffff,
    ];
    if rng.chance(1, 5) {
        // digit-periodic values: one w-bit digit (w = 4 ... 8, and the 51/52/26/29-bit limb widths) repeated through all
        // 256 bits - the inputs on which a signed-window recoding or a limb-wise carry chain sits exactly on its edge -
        // with individual 64-bit words then saturated, emptied or randomised so that carries arrive from below
        let w = [4usize, 5, 5, 6, 6, 7, 7, 8, 26, 29, 51, 52][rng.below(12) as usize];
        let half = 1u64 << (w.min(63) - 1);
        let d: u64 = match rng.below(5) {
            0 => half - 1,
            1 => half,
            2 => (half << 1).wrapping_sub(1),
            3 => half + 1,
            _ => 1,
        };
        let mut bits = [false; 256];
        let mut i = 0;
        while i < 256 {
            for j in 0..w {
                if i + j < 256 {
                    bits[i + j] = (d >> j) & 1 == 1;
                }
            }
            i += w;
        }
        let mut b = [0u8; 32];
        for (i, bit) in bits.iter().enumerate() {
            if *bit {
                b[i / 8] |= 1 << (i % 8);
            }
        }
        for wi in 0..4 {
            match rng.below(10) {
                0 => b[wi * 8..wi * 8 + 8].copy_from_slice(&u64::MAX.to_le_bytes()),
                1 => b[wi * 8..wi * 8 + 8].copy_from_slice(&0u64.to_le_bytes()),
                2 => b[wi * 8..wi * 8 + 8].copy_from_slice(&rng.next().to_le_bytes()),
                3 => {
                    for x in b[wi * 8..wi * 8 + 8].iter_mut() {
                        *x = !*x;
                    }
                }
                _ => {}
            }
        }
        return b;
    }
    let grain = [8usize, 8, 8, 4, 2][rng.below(5) as usize];
    let mut b = [0u8; 32];
    // a run-wide common word makes "all words equal" and "words cancel" inputs likely
    let common = PAT[rng.below(PAT.len() as u64) as usize];
    let rnd = rng.next();
    for ch in b.chunks_mut(grain) {
        let w = match rng.below(8) {
            0 | 1 => common,
            2 => rnd,
            3 => rng.next(),
            _ => PAT[rng.below(PAT.len() as u64) as usize],
        };
        let wb = w.to_le_bytes();
        let off = if w == 0x8000_0000_0000_0000 || w == 0x7fff_ffff_ffff_ffff || w == 0x0fff_ffff_ffff_ffff || w == 0xf777_7777_7777_7778 { 8 - ch.len() } else { 0 };
        ch.copy_from_slice(&wb[off..off + ch.len()]);
    }
    b
}

/// Structured neighbours of the group order: l (or 2^252) with individual 64-bit / 32-bit words kept, zeroed,
/// saturated or randomised. A word-wise comparison against l that forgets a word is only visible on such values.
pub fn near_l_structured(rng: &mut Prng) -> [u8; 32] {
    let l = sc::l();
    let mut w = if rng.chance(3, 4) { l.0 } else { [0, 0, 0, 1u64 << 60] };
    if rng.coin() {
        // 64-bit words
        for i in 0..4 {
            match rng.below(6) {
                0 => w[i] = 0,
                1 => w[i] = u64::MAX,
                2 => w[i] = rng.next(),
                3 => w[i] = w[i].wrapping_add(1),
                4 => w[i] = w[i].wrapping_sub(1),
                _ => {}
            }
        }
    } else {
        // 32-bit words
        for i in 0..8 {
            let sh = (i % 2) * 32;
            let mask = 0xffff_ffffu64 << sh;
            match rng.below(8) {
                0 => w[i / 2] &= !mask,
                1 => w[i / 2] |= mask,
                2 => w[i / 2] = (w[i / 2] & !mask) | (rng.next() & mask),
                _ => {}
            }
        }
    }
    // keep the value within 253 bits most of the time so it stays in the interesting range
    if rng.chance(3, 4) {
        w[3] &= (1u64 << 61) - 1;
    }
    U256(w).to_le_bytes()
}

/// Structured neighbours of the field prime: the 255-bit all-ones pattern with one or two limbs (in one of the
/// limb layouts an implementation might use: 5x51, 10x25.5, 4x64, 8x32 bits) kept, zeroed, randomised or
/// decremented, and the low limb moved around -19. A canonicalisation carry chain that skips a limb is only
/// visible on such values.
pub fn near_p_structured(rng: &mut Prng) -> [u8; 32] {
    let mut bits = [true; 255];
    let layout: Vec<(usize, usize)> = match rng.below(4) {
        0 => (0..5).map(|i| (i * 51, 51)).collect(),
        1 => {
            let mut v = Vec::new();
            let mut pos = 0;
            for i in 0..10 {
                let w = if i % 2 == 0 { 26 } else { 25 };
                v.push((pos, w));
                pos += w;
            }
            v
        }
        2 => (0..4).map(|i| (i * 64, if i == 3 { 63 } else { 64 })).collect(),
        _ => (0..8).map(|i| (i * 32, if i == 7 { 31 } else { 32 })).collect(),
    };
    let nmod = 1 + rng.below(2);
    for _ in 0..nmod {
        let (pos, w) = layout[rng.below(layout.len() as u64) as usize];
        match rng.below(4) {
            0 => {
                for b in bits[pos..pos + w].iter_mut() {
                    *b = false;
                }
            }
            1 => {
                for b in bits[pos..pos + w].iter_mut() {
                    *b = rng.coin();
                }
            }
            2 => bits[pos] = false, // limb minus one
            _ => bits[pos + w - 1] = false,
        }
    }
    let mut out = [0u8; 32];
    for (i, b) in bits.iter().enumerate() {
        if *b {
            out[i / 8] |= 1 << (i % 8);
        }
    }
    // low limb around the -19 boundary
    match rng.below(4) {
        0 => out[0] = 0xed_u8.wrapping_sub(rng.below(3) as u8),
        1 => out[0] = 0xec + rng.below(20) as u8,
        _ => {}
    }
    if rng.chance(1, 4) {
        out[31] |= 0x80;
    }
    out
}
