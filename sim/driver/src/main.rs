//! dalek-sim: deterministic simulation driver for curve25519-dalek / ed25519-dalek / x25519-dalek.
//!
//! One integer (the seed) decides every generated plan; executing a plan never consults a PRNG
//! or a clock. Exit codes: 0 clean, 1 violation(s) found, 2 harness error.

mod dict;
mod disk;
mod env;
mod exec;
mod gen_disk;
mod gen_group;
mod gen_wire;
mod group;
mod shrink;
mod wire;

use serde_json::json;
use simcore::{merge, Counters, Plan, ReplayFile};
use std::collections::{BTreeMap, BTreeSet};
use std::sync::atomic::{AtomicU64, Ordering};
use std::sync::{Arc, Mutex};

fn arg<'a>(args: &'a [String], name: &str) -> Option<&'a str> {
    args.iter().position(|a| a == name).and_then(|i| args.get(i + 1)).map(|s| s.as_str())
}

fn flag(args: &[String], name: &str) -> bool {
    args.iter().any(|a| a == name)
}

pub fn build_info() -> BTreeMap<String, String> {
    let mut m = BTreeMap::new();
    m.insert("tables".into(), cfg!(feature = "tables").to_string());
    m.insert("legacy".into(), cfg!(feature = "legacy").to_string());
    m.insert("profile".into(), if cfg!(debug_assertions) { "checked" } else { "release" }.into());
    m.insert("tag".into(), option_env!("DALEK_SIM_TAG").unwrap_or("unknown").into());
    m
}

pub fn generate(family: &str, focus: &str, seed: u64, run: u64, thorough: bool) -> Plan {
    match family {
        "group" => gen_group::generate(seed, run, &gen_group::GenCfg { focus: focus.into(), thorough }),
        "wire" => gen_wire::generate(seed, run, focus, thorough),
        "disk" => gen_disk::generate(seed, run, focus, thorough),
        _ => {
            eprintln!("unknown family {}", family);
            std::process::exit(2);
        }
    }
}

fn log_hash(log: &[(usize, u64)]) -> u64 {
    let mut flat = Vec::with_capacity(log.len() * 16);
    for (i, h) in log {
        flat.extend_from_slice(&(*i as u64).to_le_bytes());
        flat.extend_from_slice(&h.to_le_bytes());
    }
    simcore::fnv1a(&flat)
}

fn abridge(plan: &Plan) -> serde_json::Value {
    let mut v = serde_json::to_value(plan).unwrap();
    if let Some(steps) = v.get_mut("steps").and_then(|s| s.as_array_mut()) {
        let n = steps.len();
        if n > 12 {
            steps.truncate(12);
            steps.push(json!(format!("... {} more steps", n - 12)));
        }
        for st in steps.iter_mut() {
            if let Some(o) = st.as_object_mut() {
                for (_, val) in o.iter_mut() {
                    if let Some(a) = val.as_array_mut() {
                        let n = a.len();
                        if n > 4 {
                            a.truncate(4);
                            a.push(json!(format!("... {} more", n - 4)));
                        }
                    }
                    if let Some(s) = val.as_str() {
                        if s.len() > 140 {
                            *val = json!(format!("{}...({} hex chars)", &s[..128], s.len()));
                        }
                    }
                }
            }
        }
    }
    v
}

struct Shared {
    counters: Counters,
    gen_counters: Counters,
    sigs: BTreeSet<u64>,
    nontrivial: u64,
    executed: u64,
    skipped: u64,
    ticks: u64,
    runs_done: u64,
    violations: Vec<serde_json::Value>,
    samples: BTreeMap<u64, serde_json::Value>,
    logs: BTreeMap<u64, (u64, usize)>,
}

fn cmd_run(args: &[String]) -> i32 {
    let family = arg(args, "--family").unwrap_or("group").to_string();
    let focus = arg(args, "--focus").unwrap_or("C03").to_string();
    let seed: u64 = arg(args, "--seed").and_then(|s| s.parse().ok()).unwrap_or(0xD41E5EED);
    let runs: u64 = arg(args, "--runs").and_then(|s| s.parse().ok()).unwrap_or(100);
    let start: u64 = arg(args, "--start").and_then(|s| s.parse().ok()).unwrap_or(0);
    let jobs: usize = arg(args, "--jobs").and_then(|s| s.parse().ok()).unwrap_or(16);
    let thorough = arg(args, "--tier") == Some("thorough");
    let replay_dir = arg(args, "--replay-dir").unwrap_or("/verif/replays").to_string();
    let logs_path = arg(args, "--logs").map(|s| s.to_string());
    let max_viol: usize = arg(args, "--max-violations").and_then(|s| s.parse().ok()).unwrap_or(5);
    let no_shrink = flag(args, "--no-shrink");
    // only violations that are evidence against this property count ("any" = all of them)
    let prop_filter = arg(args, "--prop").unwrap_or(&focus).to_string();
    // stop handing out new runs once this file exists (wall-clock budget is the Python driver's business)
    let stop_file = arg(args, "--stop-file").map(|s| s.to_string());

    let next = Arc::new(AtomicU64::new(0));
    let shared = Arc::new(Mutex::new(Shared {
        counters: Counters::new(),
        gen_counters: Counters::new(),
        sigs: BTreeSet::new(),
        nontrivial: 0,
        executed: 0,
        skipped: 0,
        ticks: 0,
        runs_done: 0,
        violations: Vec::new(),
        samples: BTreeMap::new(),
        logs: BTreeMap::new(),
    }));
    let mut handles = Vec::new();
    for _ in 0..jobs.max(1) {
        let next = next.clone();
        let shared = shared.clone();
        let family = family.clone();
        let focus = focus.clone();
        let replay_dir = replay_dir.clone();
        let stop_file = stop_file.clone();
        let prop_filter = prop_filter.clone();
        let want_logs = logs_path.is_some();
        handles.push(
            std::thread::Builder::new()
                .stack_size(64 << 20)
                .spawn(move || loop {
                    let k = next.fetch_add(1, Ordering::SeqCst);
                    if k >= runs {
                        break;
                    }
                    if let Some(sf) = &stop_file {
                        if k % 8 == 0 && std::path::Path::new(sf).exists() {
                            break;
                        }
                    }
                    if shared.lock().unwrap().violations.len() >= max_viol {
                        break;
                    }
                    let run = start + k;
                    let plan = generate(&family, &focus, seed, run, thorough);
                    let res = exec::execute(&plan);
                    let mut viol_json = None;
                    let mut foreign = None;
                    if let Some(v) = &res.violation {
                        if prop_filter != "any" && !v.props.contains(&prop_filter) {
                            foreign = Some(format!("foreign:{}:{}", v.props.join("+"), v.class));
                        }
                    }
                    if let (Some(v), None) = (&res.violation, &foreign) {
                        let (splan, sv) = if no_shrink { (plan.clone(), v.clone()) } else { shrink::shrink(&plan, v) };
                        let prop = if sv.props.contains(&prop_filter) { prop_filter.clone() } else { sv.props.first().cloned().unwrap_or(focus.clone()) };
                        let signature = shrink::signature(&splan, &sv);
                        let rf = ReplayFile {
                            version: 1,
                            property: prop.clone(),
                            build: build_info(),
                            plan: splan.clone(),
                            violation: sv.clone(),
                            signature: signature.clone(),
                            original_steps: plan.steps.len(),
                        };
                        let text = serde_json::to_string_pretty(&rf).unwrap();
                        let dir = format!("{}/{}", replay_dir, prop);
                        let _ = std::fs::create_dir_all(&dir);
                        let path = format!("{}/{}-{}-{:016x}.json", dir, seed, run, simcore::fnv1a(text.as_bytes()));
                        if let Err(e) = std::fs::write(&path, &text) {
                            eprintln!("cannot write replay file {}: {}", path, e);
                        }
                        viol_json = Some(json!({
                            "run": run,
                            "property": prop,
                            "props": sv.props,
                            "replay": path,
                            "class": sv.class,
                            "signature": signature,
                            "detail": sv.detail,
                            "steps_before_shrink": plan.steps.len(),
                            "steps_after_shrink": splan.steps.len(),
                        }));
                    }
                    let mut s = shared.lock().unwrap();
                    if let Some(f) = foreign {
                        simcore::bump(&mut s.counters, &f);
                    }
                    merge(&mut s.counters, &res.counters);
                    merge(&mut s.gen_counters, &plan.faults);
                    s.executed += res.executed;
                    s.skipped += res.skipped;
                    s.ticks += plan.ticks;
                    s.runs_done += 1;
                    if res.executed > 0 {
                        s.nontrivial += 1;
                        s.sigs.insert(res.signature);
                    }
                    if want_logs {
                        s.logs.insert(run, (log_hash(&res.log), res.log.len()));
                    }
                    if k < 2 {
                        s.samples.insert(run, abridge(&plan));
                    }
                    if let Some(v) = viol_json {
                        s.violations.push(v);
                    }
                })
                .unwrap(),
        );
    }
    let mut harness_error = false;
    for h in handles {
        if h.join().is_err() {
            harness_error = true;
        }
    }
    let s = shared.lock().unwrap();
    if let Some(p) = logs_path {
        let mut text = String::new();
        for (run, (h, n)) in &s.logs {
            text.push_str(&format!("{} {:016x} {}\n", run, h, n));
        }
        if std::fs::write(&p, text).is_err() {
            harness_error = true;
        }
    }
    let mut viols = s.violations.clone();
    viols.sort_by_key(|v| v["run"].as_u64().unwrap_or(0));
    let out = json!({
        "family": family,
        "focus": focus,
        "seed": seed,
        "start": start,
        "runs_requested": runs,
        "runs": s.runs_done,
        "steps_executed": s.executed,
        "steps_skipped": s.skipped,
        "sim_ticks": s.ticks,
        "distinct_signatures": s.sigs.len(),
        "nontrivial_runs": s.nontrivial,
        "counters": s.counters,
        "gen_counters": s.gen_counters,
        "violations": viols,
        "samples": s.samples.values().collect::<Vec<_>>(),
        "build": build_info(),
        "compiled_backend_mask": env::compiled_mask_global(),
    });
    println!("{}", serde_json::to_string(&out).unwrap());
    if harness_error {
        2
    } else if !s.violations.is_empty() {
        1
    } else {
        0
    }
}

fn cmd_replay(args: &[String]) -> i32 {
    let path = match args.get(0) {
        Some(p) => p,
        None => return 2,
    };
    let text = match std::fs::read_to_string(path) {
        Ok(t) => t,
        Err(e) => {
            eprintln!("cannot read {}: {}", path, e);
            return 2;
        }
    };
    let rf: ReplayFile = match serde_json::from_str(&text) {
        Ok(r) => r,
        Err(e) => {
            eprintln!("bad replay file: {}", e);
            return 2;
        }
    };
    let res = exec::execute(&rf.plan);
    let same = res.violation.as_ref().map(|v| v.class == rf.violation.class).unwrap_or(false);
    let out = json!({
        "replay": path,
        "property": rf.property,
        "expected_class": rf.violation.class,
        "violation": res.violation,
        "reproduced": same,
        "signature": rf.signature,
        "build": build_info(),
    });
    println!("{}", serde_json::to_string(&out).unwrap());
    if flag(args, "--log") {
        for (i, h) in &res.log {
            println!("LOG {} {:016x}", i, h);
        }
    }
    match (&res.violation, same) {
        (Some(_), true) => 1,
        (Some(_), false) => 3,
        (None, _) => 0,
    }
}

/// execute a bare plan (JSON) and print its event log; used by the cross-configuration checks
fn cmd_exec_plan(args: &[String]) -> i32 {
    let path = match args.get(0) {
        Some(p) => p,
        None => return 2,
    };
    let plan: Plan = match std::fs::read_to_string(path).ok().and_then(|t| serde_json::from_str(&t).ok()) {
        Some(p) => p,
        None => {
            eprintln!("cannot read plan {}", path);
            return 2;
        }
    };
    let res = exec::execute(&plan);
    for (i, h) in &res.log {
        println!("LOG {} {:016x}", i, h);
    }
    println!("RESULT {}", serde_json::to_string(&json!({"violation": res.violation, "log_hash": format!("{:016x}", log_hash(&res.log)), "n": res.log.len()})).unwrap());
    0
}

/// dump-plans: JSON-lines of generated plans (for drivers that have no generator of their own)
fn cmd_dump_plans(args: &[String]) -> i32 {
    let family = arg(args, "--family").unwrap_or("group");
    let focus = arg(args, "--focus").unwrap_or("C03");
    let seed: u64 = arg(args, "--seed").and_then(|s| s.parse().ok()).unwrap_or(0xD41E5EED);
    let runs: u64 = arg(args, "--runs").and_then(|s| s.parse().ok()).unwrap_or(10);
    let start: u64 = arg(args, "--start").and_then(|s| s.parse().ok()).unwrap_or(0);
    let thorough = arg(args, "--tier") == Some("thorough");
    let out = match arg(args, "--out") {
        Some(o) => o,
        None => return 2,
    };
    let mut text = String::new();
    for k in 0..runs {
        let plan = generate(family, focus, seed, start + k, thorough);
        text.push_str(&serde_json::to_string(&plan).unwrap());
        text.push('\n');
    }
    if std::fs::write(out, text).is_err() {
        return 2;
    }
    0
}

/// exec-plans FILE OUT: executes JSON-lines plans, writes "run step hash" lines (and "run VIOLATION class" on a violation)
fn cmd_exec_plans(args: &[String]) -> i32 {
    let (inp, out) = match (args.get(0), args.get(1)) {
        (Some(a), Some(b)) => (a, b),
        _ => return 2,
    };
    let text = match std::fs::read_to_string(inp) {
        Ok(t) => t,
        Err(_) => return 2,
    };
    let mut o = String::new();
    for line in text.lines() {
        if line.trim().is_empty() {
            continue;
        }
        let plan: Plan = match serde_json::from_str(line) {
            Ok(p) => p,
            Err(_) => return 2,
        };
        let res = exec::execute(&plan);
        for (i, h) in &res.log {
            o.push_str(&format!("{} {} {:016x}\n", plan.run, i, h));
        }
        if let Some(v) = &res.violation {
            o.push_str(&format!("{} VIOLATION {} {}\n", plan.run, v.class, v.detail.replace('\n', " ")));
        }
    }
    if std::fs::write(out, o).is_err() {
        return 2;
    }
    0
}

fn cmd_dump_plan(args: &[String]) -> i32 {
    let family = arg(args, "--family").unwrap_or("group");
    let focus = arg(args, "--focus").unwrap_or("C03");
    let seed: u64 = arg(args, "--seed").and_then(|s| s.parse().ok()).unwrap_or(0xD41E5EED);
    let run: u64 = arg(args, "--run").and_then(|s| s.parse().ok()).unwrap_or(0);
    let thorough = arg(args, "--tier") == Some("thorough");
    let plan = generate(family, focus, seed, run, thorough);
    println!("{}", serde_json::to_string_pretty(&plan).unwrap());
    0
}

fn main() {
    env::install_panic_hook();
    let args: Vec<String> = std::env::args().skip(1).collect();
    if let Some(f) = arg(&args, "--force-dispatch").and_then(|s| s.parse::<u8>().ok()) {
        env::set_force_dispatch(f);
    }
    // calibration of the one thing the documentation leaves open about the public torsion table: which generator
    // element 1 is (accepted only if it has exact order 8; see refmodel::ed::torsion_table_documented)
    let _ = refmodel::ed::set_torsion_anchor(&curve25519_dalek::constants::EIGHT_TORSION[1].compress().to_bytes());
    let code = match args.first().map(|s| s.as_str()) {
        Some("run") => cmd_run(&args[1..]),
        Some("replay") => cmd_replay(&args[1..]),
        Some("exec-plan") => cmd_exec_plan(&args[1..]),
        Some("dump-plan") => cmd_dump_plan(&args[1..]),
        Some("dump-plans") => cmd_dump_plans(&args[1..]),
        Some("exec-plans") => cmd_exec_plans(&args[1..]),
        Some("selfcheck") => match refmodel::selfcheck::run() {
            Ok(n) => {
                println!("{}", json!({"model_selfcheck": "ok", "checks": n}));
                0
            }
            Err(e) => {
                eprintln!("MODEL SELF-CHECK FAILED: {}", e);
                2
            }
        },
        Some("info") => {
            // one dispatch so the compiled mask is known
            let _ = curve25519_dalek::EdwardsPoint::mul_base(&curve25519_dalek::Scalar::ONE) * curve25519_dalek::Scalar::ONE;
            println!("{}", json!({"build": build_info(), "compiled_backend_mask": env::compiled_mask_global()}));
            0
        }
        _ => {
            eprintln!("usage: dalek-sim run|replay|exec-plan|dump-plan|selfcheck|info ...");
            2
        }
    };
    std::process::exit(code);
}
