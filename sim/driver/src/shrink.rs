//! Plan minimisation: keep an edit iff the same violation class persists. Bounded.

use crate::exec;
use simcore::{Plan, Step, Violation};

fn fails_same(plan: &Plan, class: &str) -> Option<Violation> {
    let r = exec::execute(plan);
    match r.violation {
        Some(v) if v.class == class => Some(v),
        _ => None,
    }
}

/// try to simplify one step in place; returns candidate replacements (simplest first)
fn simplify(st: &Step) -> Vec<Step> {
    let mut out = Vec::new();
    match st {
        Step::Msm { g, dst, entry, ss, hs, it, d } => {
            let n = ss.len().min(hs.len());
            if n > 1 {
                for (lo, hi) in [(0, n / 2), (n / 2, n)] {
                    out.push(Step::Msm { g: *g, dst: *dst, entry: *entry, ss: ss[lo..hi].to_vec(), hs: hs[lo..hi].to_vec(), it: *it, d: *d });
                }
                if n <= 16 {
                    for k in 0..n {
                        let mut s2 = ss.clone();
                        let mut h2 = hs.clone();
                        s2.remove(k);
                        h2.remove(k);
                        out.push(Step::Msm { g: *g, dst: *dst, entry: *entry, ss: s2, hs: h2, it: *it, d: *d });
                    }
                }
            }
            if *it != 0 {
                out.push(Step::Msm { g: *g, dst: *dst, entry: *entry, ss: ss.clone(), hs: hs.clone(), it: 0, d: *d });
            }
            if *d != 0 {
                out.push(Step::Msm { g: *g, dst: *dst, entry: *entry, ss: ss.clone(), hs: hs.clone(), it: *it, d: 0 });
            }
        }
        Step::Sum { g, dst, hs } if hs.len() > 1 => {
            for k in 0..hs.len() {
                let mut h2 = hs.clone();
                h2.remove(k);
                out.push(Step::Sum { g: *g, dst: *dst, hs: h2 });
            }
        }
        Step::Batch { hs } if hs.len() > 1 => {
            for k in 0..hs.len() {
                let mut h2 = hs.clone();
                h2.remove(k);
                out.push(Step::Batch { hs: h2 });
            }
        }
        Step::Pre { g, dst, entry, st, ss, ds, dh, d, it, slot } => {
            if !ds.is_empty() {
                let mut ds2 = ds.clone();
                let mut dh2 = dh.clone();
                ds2.pop();
                dh2.pop();
                out.push(Step::Pre { g: *g, dst: *dst, entry: *entry, st: st.clone(), ss: ss.clone(), ds: ds2, dh: dh2, d: *d, it: *it, slot: *slot });
            }
            if !st.is_empty() {
                let mut st2 = st.clone();
                let mut ss2 = ss.clone();
                st2.pop();
                if ss2.len() > st2.len() {
                    ss2.pop();
                }
                out.push(Step::Pre { g: *g, dst: *dst, entry: *entry, st: st2, ss: ss2, ds: ds.clone(), dh: dh.clone(), d: *d, it: *it, slot: *slot });
            }
        }
        Step::Mul { g, dst, a, s, via, d } => {
            if *d != 0 {
                out.push(Step::Mul { g: *g, dst: *dst, a: *a, s: s.clone(), via: *via, d: 0 });
            }
            if *via != 0 {
                out.push(Step::Mul { g: *g, dst: *dst, a: *a, s: s.clone(), via: 0, d: *d });
            }
        }
        Step::BFlush { q, var, arg, d, clear } => {
            if *d != 0 {
                out.push(Step::BFlush { q: *q, var: *var, arg: arg.clone(), d: 0, clear: *clear });
            }
            if *var != 0 {
                out.push(Step::BFlush { q: *q, var: 0, arg: vec![], d: *d, clear: *clear });
            }
        }
        Step::Sign { s, m, mode, ctx, ch } => {
            if !ch.is_empty() {
                out.push(Step::Sign { s: *s, m: m.clone(), mode: *mode, ctx: ctx.clone(), ch: vec![] });
            }
            if m.0.len() > 1 {
                out.push(Step::Sign { s: *s, m: simcore::B(m.0[..m.0.len() / 2].to_vec()), mode: *mode, ctx: ctx.clone(), ch: ch.clone() });
            }
        }
        Step::Ver { mode, key, m, sig, ctx, ch, chosen, d, ksrc, hon } => {
            if !ch.is_empty() {
                out.push(Step::Ver { mode: *mode, key: key.clone(), m: m.clone(), sig: sig.clone(), ctx: ctx.clone(), ch: vec![], chosen: chosen.clone(), d: *d, ksrc: *ksrc, hon: *hon });
            }
            if *d != 0 {
                out.push(Step::Ver { mode: *mode, key: key.clone(), m: m.clone(), sig: sig.clone(), ctx: ctx.clone(), ch: ch.clone(), chosen: chosen.clone(), d: 0, ksrc: *ksrc, hon: *hon });
            }
        }
        _ => {}
    }
    out
}

/// deterministic cost of executing a plan once (steps, weighted by the sizes that dominate model time)
fn cost(plan: &Plan) -> usize {
    let nbq = plan.steps.iter().filter(|s| matches!(s, Step::BQ { .. })).count();
    plan.steps
        .iter()
        .map(|s| match s {
            Step::Msm { ss, .. } => 1 + ss.len(),
            Step::Pre { ss, ds, .. } => 1 + ss.len() + ds.len(),
            Step::BFlush { .. } => 1 + nbq,
            Step::Disk { .. } => 2000,
            _ => 1,
        })
        .sum()
}

pub fn shrink(plan: &Plan, v: &Violation) -> (Plan, Violation) {
    let class = v.class.clone();
    // the budget is in executions, but never more than a fixed amount of (deterministic) work
    let per_exec = cost(plan).max(1);
    let mut budget = (600usize).min(400_000 / per_exec).max(12);
    let mut cur = plan.clone();
    let mut curv = v.clone();
    // 0. a Disk enumeration narrows to its one failing load
    if let Some(sub) = exec::narrow_disk(&cur, &curv) {
        let mut p = cur.clone();
        p.steps = vec![sub];
        let r = exec::execute(&p);
        if let Some(nv) = r.violation {
            return (p, nv);
        }
    }
    // 1. drop everything after the violating step
    if curv.step + 1 < cur.steps.len() {
        let mut p = cur.clone();
        p.steps.truncate(curv.step + 1);
        if let Some(nv) = fails_same(&p, &class) {
            cur = p;
            curv = nv;
        }
    }
    // 2. delta debugging on the step list
    let mut chunk = (cur.steps.len() / 2).max(1);
    while chunk >= 1 && budget > 0 {
        let mut i = 0;
        let mut progressed = false;
        while i < cur.steps.len() && budget > 0 {
            let end = (i + chunk).min(cur.steps.len());
            let mut p = cur.clone();
            p.steps.drain(i..end);
            budget -= 1;
            if !p.steps.is_empty() {
                if let Some(nv) = fails_same(&p, &class) {
                    cur = p;
                    curv = nv;
                    progressed = true;
                    continue;
                }
            }
            i = end;
        }
        if chunk == 1 && !progressed {
            break;
        }
        if chunk > 1 {
            chunk /= 2;
        }
    }
    // 3. simplify individual steps
    let mut changed = true;
    while changed && budget > 0 {
        changed = false;
        for i in 0..cur.steps.len() {
            for cand in simplify(&cur.steps[i]) {
                if budget == 0 {
                    break;
                }
                budget -= 1;
                let mut p = cur.clone();
                p.steps[i] = cand;
                if let Some(nv) = fails_same(&p, &class) {
                    cur = p;
                    curv = nv;
                    changed = true;
                    break;
                }
            }
        }
    }
    (cur, curv)
}

/// narrow identification of a failing case, for known-findings matching: the violation class plus
/// the discriminating parameters of the violating step (never payload bytes).
pub fn signature(plan: &Plan, v: &Violation) -> String {
    let st = plan.steps.get(v.step);
    let extra = match st {
        Some(Step::Load { ty, fmt, .. }) => format!("ty={}:fmt={}", crate::disk::ty_name(*ty), ["bincode", "json", "bincode-varint", "bincode-be"][(*fmt as usize).min(3)]),
        Some(Step::SimFmt { ty, shape, tk, extra, err_at, .. }) => format!(
            "ty={}:shape={}:trailing={}:tk={}:err={}",
            crate::disk::ty_name(*ty),
            shape,
            (*extra).min(1),
            tk,
            if *err_at == 65535 { "none" } else { "some" }
        ),
        Some(Step::Ver { mode, .. }) => format!("mode={}", mode),
        Some(Step::Msm { g, entry, .. }) => format!("g={}:entry={}", g, entry),
        Some(Step::Decode { ty, .. }) => format!("ty={}", ty),
        Some(other) => other.kind().to_string(),
        None => String::new(),
    };
    format!("{}:{}", v.class, extra)
}
