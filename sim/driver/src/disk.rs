//! `disk` family: serialised forms on simulated storage. Fault enumeration on the stored stream
//! (SimDisk) and a fault-injecting serde Deserializer (SimFormat).

use crate::env::{Obs, Out};
use curve25519_dalek::edwards::{CompressedEdwardsY, EdwardsPoint};
use curve25519_dalek::montgomery::MontgomeryPoint;
use curve25519_dalek::ristretto::{CompressedRistretto, RistrettoPoint};
use curve25519_dalek::scalar::Scalar;
use ed25519_dalek::{Signature, SigningKey, VerifyingKey};
use refmodel::ed::Pt;
use serde::de::{self, DeserializeSeed, SeqAccess, Visitor};
use serde::Deserialize;
use simcore::{bump, Counters, Step, B};

pub const NTYPES: u8 = 11;

pub fn ty_name(t: u8) -> &'static str {
    match t {
        0 => "Scalar",
        1 => "EdwardsPoint",
        2 => "CompressedEdwardsY",
        3 => "RistrettoPoint",
        4 => "CompressedRistretto",
        5 => "MontgomeryPoint",
        6 => "SigningKey",
        7 => "VerifyingKey",
        8 => "Signature",
        9 => "x25519::PublicKey",
        10 => "x25519::StaticSecret",
        _ => "?",
    }
}

pub fn payload_len(ty: u8) -> usize {
    if ty == 8 {
        64
    } else {
        32
    }
}

/// does the type serialise through serialize_bytes (length-prefixed in bincode)?
fn is_bytes_type(ty: u8) -> bool {
    matches!(ty, 6 | 7)
}

// ------------------------------------------------------------------ model side (no /repo code)

/// what the native decoder must make of a payload: Some(canonical bytes of the value) or None
pub fn native_model(ty: u8, p: &[u8]) -> Option<Vec<u8>> {
    if p.len() != payload_len(ty) {
        return None;
    }
    match ty {
        0 => {
            if refmodel::Sc::is_canonical_bytes(&refmodel::arr32(p)) {
                Some(p.to_vec())
            } else {
                None
            }
        }
        1 => Pt::decode(&refmodel::arr32(p)).map(|q| q.encode().to_vec()),
        3 => refmodel::ristretto::decode(&refmodel::arr32(p)).map(|_| p.to_vec()),
        7 => Pt::decode(&refmodel::arr32(p)).map(|_| p.to_vec()),
        _ => Some(p.to_vec()),
    }
}

/// the canonical stream of a value whose canonical bytes are v
pub fn canonical_stream(ty: u8, v: &[u8], fmt: u8) -> Vec<u8> {
    if fmt != 1 {
        let mut s = Vec::new();
        if is_bytes_type(ty) {
            match fmt {
                0 => s.extend_from_slice(&(v.len() as u64).to_le_bytes()),
                3 => s.extend_from_slice(&(v.len() as u64).to_be_bytes()),
                _ => {
                    // bincode varint: lengths below 251 are one byte
                    assert!(v.len() < 251);
                    s.push(v.len() as u8)
                }
            }
        }
        s.extend_from_slice(v);
        s
    } else {
        let items: Vec<String> = v.iter().map(|b| b.to_string()).collect();
        format!("[{}]", items.join(",")).into_bytes()
    }
}

/// The trusted format parsers used as byte extractors: what plain bytes does this stream carry?
fn plain_load(ty: u8, fmt: u8, stream: &[u8]) -> Option<Vec<u8>> {
    if is_bytes_type(ty) {
        let v: Option<PlainBytes> = if fmt != 1 { bincode_strict(fmt, stream) } else { serde_json::from_slice(stream).ok() };
        v.map(|p| p.0)
    } else if ty == 8 {
        let v: Option<Plain64> = if fmt != 1 { bincode_strict(fmt, stream) } else { serde_json::from_slice(stream).ok() };
        v.map(|p| p.0.to_vec())
    } else {
        let v: Option<[u8; 32]> = if fmt != 1 { bincode_strict(fmt, stream) } else { serde_json::from_slice(stream).ok() };
        v.map(|p| p.to_vec())
    }
}

fn bincode_strict<'a, T: Deserialize<'a>>(fmt: u8, stream: &'a [u8]) -> Option<T> {
    use bincode::Options;
    let base = bincode::options().reject_trailing_bytes().with_limit(1 << 16);
    match fmt {
        2 => base.with_varint_encoding().with_little_endian().deserialize(stream).ok(),
        3 => base.with_fixint_encoding().with_big_endian().deserialize(stream).ok(),
        _ => base.with_fixint_encoding().with_little_endian().deserialize(stream).ok(),
    }
}

/// what a `deserialize_bytes` consumer is handed: a byte string, or a sequence of u8 read strictly to its end
struct PlainBytes(Vec<u8>);
impl<'de> Deserialize<'de> for PlainBytes {
    fn deserialize<D: de::Deserializer<'de>>(d: D) -> Result<Self, D::Error> {
        struct V;
        impl<'de> Visitor<'de> for V {
            type Value = PlainBytes;
            fn expecting(&self, f: &mut std::fmt::Formatter<'_>) -> std::fmt::Result {
                f.write_str("bytes")
            }
            fn visit_bytes<E: de::Error>(self, b: &[u8]) -> Result<PlainBytes, E> {
                Ok(PlainBytes(b.to_vec()))
            }
            fn visit_seq<A: SeqAccess<'de>>(self, mut seq: A) -> Result<PlainBytes, A::Error> {
                let mut v = Vec::new();
                while let Some(b) = seq.next_element::<u8>()? {
                    v.push(b);
                    if v.len() > 4096 {
                        return Err(de::Error::custom("too long"));
                    }
                }
                Ok(PlainBytes(v))
            }
        }
        d.deserialize_bytes(V)
    }
}

struct Plain64([u8; 64]);
impl<'de> Deserialize<'de> for Plain64 {
    fn deserialize<D: de::Deserializer<'de>>(d: D) -> Result<Self, D::Error> {
        struct V;
        impl<'de> Visitor<'de> for V {
            type Value = Plain64;
            fn expecting(&self, f: &mut std::fmt::Formatter<'_>) -> std::fmt::Result {
                f.write_str("64 bytes")
            }
            fn visit_seq<A: SeqAccess<'de>>(self, mut seq: A) -> Result<Plain64, A::Error> {
                let mut a = [0u8; 64];
                for (i, b) in a.iter_mut().enumerate() {
                    *b = seq.next_element()?.ok_or_else(|| de::Error::invalid_length(i, &self))?;
                }
                Ok(Plain64(a))
            }
        }
        d.deserialize_tuple(64, V)
    }
}

/// byte strings a top-level JSON string could be meant to stand for
fn text_candidates(stream: &[u8]) -> Vec<Vec<u8>> {
    let t: String = match serde_json::from_slice::<String>(stream) {
        Ok(t) => t,
        Err(_) => return Vec::new(),
    };
    let mut out = vec![t.as_bytes().to_vec()];
    if t.chars().all(|c| (c as u32) < 256) {
        out.push(t.chars().map(|c| c as u32 as u8).collect());
    }
    let h = t.strip_prefix("0x").or_else(|| t.strip_prefix("0X")).unwrap_or(&t);
    if h.len() % 2 == 0 && h.bytes().all(|b| b.is_ascii_hexdigit()) {
        out.push((0..h.len() / 2).map(|i| u8::from_str_radix(&h[2 * i..2 * i + 2], 16).unwrap()).collect());
    }
    // base64, standard and URL-safe alphabets, padding optional
    let mut acc: u32 = 0;
    let mut bits = 0;
    let mut b64 = Vec::new();
    let mut ok = !t.is_empty();
    for ch in t.trim_end_matches('=').bytes() {
        let v = match ch {
            b'A'..=b'Z' => ch - b'A',
            b'a'..=b'z' => ch - b'a' + 26,
            b'0'..=b'9' => ch - b'0' + 52,
            b'+' | b'-' => 62,
            b'/' | b'_' => 63,
            _ => {
                ok = false;
                break;
            }
        };
        acc = (acc << 6) | v as u32;
        bits += 6;
        if bits >= 8 {
            bits -= 8;
            b64.push((acc >> bits) as u8);
            acc &= (1 << bits) - 1;
        }
    }
    if ok {
        out.push(b64);
    }
    out
}

/// what the loaded value is good for: the public half a loaded secret key derives (empty for the other types)
fn model_derived(ty: u8, canon: Option<&[u8]>) -> Vec<u8> {
    match (ty, canon) {
        (6, Some(c)) if c.len() == 32 => refmodel::eddsa::public_key(&refmodel::arr32(c)).to_vec(),
        (10, Some(c)) if c.len() == 32 => refmodel::x25519::x25519(&refmodel::arr32(c), &refmodel::x25519::basepoint_u()).to_vec(),
        _ => Vec::new(),
    }
}

pub fn model_apply(st: &Step) -> Out {
    let mut o = Obs::new();
    match st {
        Step::Store { ty, v, fmt } => {
            if native_model(*ty, &v.0).map(|c| c != v.0).unwrap_or(true) {
                return Out::Skip; // not the canonical bytes of a valid value
            }
            o.b("stream", &canonical_stream(*ty, &v.0, *fmt));
        }
        Step::Load { ty, fmt, stream } => {
            let expect = plain_load(*ty, *fmt, &stream.0).and_then(|p| native_model(*ty, &p));
            if *fmt == 1 && expect.is_none() && text_candidates(&stream.0).iter().any(|c| native_model(*ty, c).is_some()) {
                // a self-describing format's string that is a text rendering (hex, base64, raw characters) of a valid
                // value: the property speaks of byte and sequence inputs; whether such a string is refused or read as
                // that value is not decided here. A string rendering only invalid values must be refused like them.
                for l in ["ok", "val", "repr_ok", "derived"] {
                    o.any(l);
                }
                o.f("inplace_object_valid", true);
                for l in ["inplace_ok", "inplace_val", "inplace_derived"] {
                    o.any(l);
                }
                return Out::Obs(o);
            }
            o.f("ok", expect.is_some());
            let val = expect.clone().unwrap_or_default();
            o.b("val", &val);
            o.f("repr_ok", true);
            let der = model_derived(*ty, expect.as_deref());
            o.b("derived", &der);
            // the same record read into an existing value of the type (serde's deserialize_in_place)
            o.f("inplace_object_valid", true);
            o.f("inplace_ok", expect.is_some());
            o.b("inplace_val", &val);
            o.b("inplace_derived", &der);
        }
        Step::SimFmt { ty, v, shape, len, extra, err_at, tk: _ } => {
            let n = (*len as usize).min(v.0.len());
            let delivered = &v.0[..n];
            let want = payload_len(*ty);
            let bytes_ty = is_bytes_type(*ty);
            let err = *err_at as usize;
            let ty_ = *ty;
            let fin = |o: &mut Obs, e: Option<Vec<u8>>| {
                o.f("ok", e.is_some());
                o.b("val", &e.clone().unwrap_or_default());
                o.b("derived", &model_derived(ty_, e.as_deref()));
                o.f("inplace_object_valid", true);
                o.f("inplace_ok", e.is_some());
                o.b("inplace_val", &e.clone().unwrap_or_default());
            };
            if *shape == 0 {
                // a sequence: `n` elements of the value, then `extra` trailing ones; an injected error at index err
                let total = n + *extra as usize;
                if err < want.min(total) || n < want {
                    fin(&mut o, None);
                } else if total > want {
                    // over-long input must be rejected (by the type or by the format's end check)
                    fin(&mut o, None);
                } else if err == want && bytes_ty {
                    // exactly enough elements, then an error where the end of the sequence should be:
                    // failing is right, succeeding is tolerable (nothing wrong was returned)
                    o.any("ok");
                    o.any("val");
                    o.any("derived");
                    o.f("inplace_object_valid", true);
                    o.any("inplace_ok");
                    o.any("inplace_val");
                    return Out::Obs(o);
                } else {
                    fin(&mut o, native_model(*ty, delivered));
                }
            } else if bytes_ty {
                let e = if err == 0 { None } else { native_model(*ty, delivered) };
                fin(&mut o, e);
            } else {
                // tuple-shaped types are not fed from byte strings
                fin(&mut o, None);
            }
        }
        _ => return Out::Skip,
    }
    Out::Obs(o)
}

// ------------------------------------------------------------------ real side

enum Val {
    Scalar(Scalar),
    Ed(EdwardsPoint),
    CEd(CompressedEdwardsY),
    Ris(RistrettoPoint),
    CRis(CompressedRistretto),
    Mont(MontgomeryPoint),
    Sk(SigningKey),
    Vk(VerifyingKey),
    Sig(Signature),
    XPub(x25519_dalek::PublicKey),
    XSec(x25519_dalek::StaticSecret),
}

impl Val {
    /// the type's own invariant, judged by the reference model on what the object exposes
    fn invariant_holds(&self) -> bool {
        match self {
            Val::Scalar(s) => refmodel::Sc::is_canonical_bytes(&s.to_bytes()),
            Val::Ed(p) => refmodel::ed::check_extended(&curve25519_dalek::verif_hooks::edwards_coords(p)).is_ok(),
            Val::Ris(p) => refmodel::ed::check_extended(&curve25519_dalek::verif_hooks::edwards_coords(&curve25519_dalek::verif_hooks::ristretto_inner(p))).is_ok(),
            Val::Vk(k) => match Pt::decode(&k.to_bytes()) {
                Some(p) => p.to_montgomery_u().to_bytes() == k.to_montgomery().to_bytes(),
                None => false,
            },
            Val::Sk(k) => k.verifying_key().to_bytes() == refmodel::eddsa::public_key(&k.to_bytes()),
            _ => true,
        }
    }
    /// the public half a secret key derives, as the loaded object itself reports it
    fn derived(&self) -> Vec<u8> {
        match self {
            Val::Sk(k) => k.verifying_key().to_bytes().to_vec(),
            Val::XSec(s) => x25519_dalek::PublicKey::from(s).to_bytes().to_vec(),
            _ => Vec::new(),
        }
    }
    fn canon(&self) -> Vec<u8> {
        match self {
            Val::Scalar(s) => s.to_bytes().to_vec(),
            Val::Ed(p) => p.compress().to_bytes().to_vec(),
            Val::CEd(c) => c.to_bytes().to_vec(),
            Val::Ris(p) => p.compress().to_bytes().to_vec(),
            Val::CRis(c) => c.to_bytes().to_vec(),
            Val::Mont(m) => m.to_bytes().to_vec(),
            Val::Sk(k) => k.to_bytes().to_vec(),
            Val::Vk(k) => k.to_bytes().to_vec(),
            Val::Sig(s) => s.to_bytes().to_vec(),
            Val::XPub(p) => p.to_bytes().to_vec(),
            Val::XSec(s) => s.to_bytes().to_vec(),
        }
    }
}

fn build(ty: u8, v: &B) -> Option<Val> {
    Some(match ty {
        0 => Val::Scalar(Option::from(Scalar::from_canonical_bytes(v.a32()))?),
        1 => Val::Ed(CompressedEdwardsY(v.a32()).decompress()?),
        2 => Val::CEd(CompressedEdwardsY(v.a32())),
        3 => Val::Ris(CompressedRistretto(v.a32()).decompress()?),
        4 => Val::CRis(CompressedRistretto(v.a32())),
        5 => Val::Mont(MontgomeryPoint(v.a32())),
        6 => Val::Sk(SigningKey::from_bytes(&v.a32())),
        7 => Val::Vk(VerifyingKey::from_bytes(&v.a32()).ok()?),
        8 => Val::Sig(Signature::from_bytes(&v.a64())),
        9 => Val::XPub(x25519_dalek::PublicKey::from(v.a32())),
        _ => Val::XSec(x25519_dalek::StaticSecret::from(v.a32())),
    })
}

fn ser<T: serde::Serialize>(x: &T, fmt: u8) -> Option<Vec<u8>> {
    use bincode::Options;
    match fmt {
        0 => bincode::serialize(x).ok(),
        2 => bincode::options().with_varint_encoding().with_little_endian().serialize(x).ok(),
        3 => bincode::options().with_fixint_encoding().with_big_endian().serialize(x).ok(),
        _ => serde_json::to_vec(x).ok(),
    }
}

fn store(val: &Val, fmt: u8) -> Option<Vec<u8>> {
    match val {
        Val::Scalar(x) => ser(x, fmt),
        Val::Ed(x) => ser(x, fmt),
        Val::CEd(x) => ser(x, fmt),
        Val::Ris(x) => ser(x, fmt),
        Val::CRis(x) => ser(x, fmt),
        Val::Mont(x) => ser(x, fmt),
        Val::Sk(x) => ser(x, fmt),
        Val::Vk(x) => ser(x, fmt),
        Val::Sig(x) => ser(x, fmt),
        Val::XPub(x) => ser(x, fmt),
        Val::XSec(x) => ser(x, fmt),
    }
}

/// typed load through the library's Deserialize impl from any serde Deserializer
fn typed<'de, D: de::Deserializer<'de>>(ty: u8, d: D) -> Result<Val, D::Error> {
    Ok(match ty {
        0 => Val::Scalar(Scalar::deserialize(d)?),
        1 => Val::Ed(EdwardsPoint::deserialize(d)?),
        2 => Val::CEd(CompressedEdwardsY::deserialize(d)?),
        3 => Val::Ris(RistrettoPoint::deserialize(d)?),
        4 => Val::CRis(CompressedRistretto::deserialize(d)?),
        5 => Val::Mont(MontgomeryPoint::deserialize(d)?),
        6 => Val::Sk(SigningKey::deserialize(d)?),
        7 => Val::Vk(VerifyingKey::deserialize(d)?),
        8 => Val::Sig(Signature::deserialize(d)?),
        9 => Val::XPub(x25519_dalek::PublicKey::deserialize(d)?),
        _ => Val::XSec(x25519_dalek::StaticSecret::deserialize(d)?),
    })
}

/// an existing, unrelated value of each type for `deserialize_in_place` to overwrite
fn resident(ty: u8) -> Val {
    let sk = SigningKey::from_bytes(&[7u8; 32]);
    match ty {
        0 => Val::Scalar(Scalar::from(0x1234_5678u64)),
        1 => Val::Ed(curve25519_dalek::constants::ED25519_BASEPOINT_POINT),
        2 => Val::CEd(curve25519_dalek::constants::ED25519_BASEPOINT_COMPRESSED),
        3 => Val::Ris(curve25519_dalek::constants::RISTRETTO_BASEPOINT_POINT),
        4 => Val::CRis(curve25519_dalek::constants::RISTRETTO_BASEPOINT_COMPRESSED),
        5 => Val::Mont(curve25519_dalek::constants::X25519_BASEPOINT),
        6 => Val::Sk(sk),
        7 => Val::Vk(sk.verifying_key()),
        8 => Val::Sig(Signature::from_bytes(&[3u8; 64])),
        9 => Val::XPub(x25519_dalek::PublicKey::from([9u8; 32])),
        _ => Val::XSec(x25519_dalek::StaticSecret::from([5u8; 32])),
    }
}

/// the library's Deserialize impl asked to overwrite an existing value
fn typed_in_place<'de, D: de::Deserializer<'de>>(ty: u8, d: D) -> Result<Val, D::Error> {
    let mut place = resident(ty);
    let r = match &mut place {
        Val::Scalar(x) => Deserialize::deserialize_in_place(d, x),
        Val::Ed(x) => Deserialize::deserialize_in_place(d, x),
        Val::CEd(x) => Deserialize::deserialize_in_place(d, x),
        Val::Ris(x) => Deserialize::deserialize_in_place(d, x),
        Val::CRis(x) => Deserialize::deserialize_in_place(d, x),
        Val::Mont(x) => Deserialize::deserialize_in_place(d, x),
        Val::Sk(x) => Deserialize::deserialize_in_place(d, x),
        Val::Vk(x) => Deserialize::deserialize_in_place(d, x),
        Val::Sig(x) => Deserialize::deserialize_in_place(d, x),
        Val::XPub(x) => Deserialize::deserialize_in_place(d, x),
        Val::XSec(x) => Deserialize::deserialize_in_place(d, x),
    };
    // whatever the outcome, the caller's object must still be a valid value of its type: a refused load may leave it
    // partly overwritten (serde allows that), it may not leave a non-canonical scalar, an off-curve point or a key pair
    // whose halves disagree behind
    PLACE_INVALID.with(|c| c.set(c.get() || !place.invariant_holds()));
    r.map(|_| place)
}

thread_local! {
    static PLACE_INVALID: std::cell::Cell<bool> = const { std::cell::Cell::new(false) };
}

fn typed_load(ty: u8, fmt: u8, stream: &[u8]) -> Option<Val> {
    typed_load_with(ty, fmt, stream, false)
}

fn typed_load_with(ty: u8, fmt: u8, stream: &[u8], in_place: bool) -> Option<Val> {
    if fmt != 1 {
        use bincode::Options;
        let base = bincode::options().reject_trailing_bytes().with_limit(1 << 16);
        macro_rules! go {
            ($d:expr) => {{
                let mut d = $d;
                if in_place {
                    typed_in_place(ty, &mut d).ok()?
                } else {
                    typed(ty, &mut d).ok()?
                }
            }};
        }
        let v = match fmt {
            2 => go!(bincode::Deserializer::from_slice(stream, base.with_varint_encoding().with_little_endian())),
            3 => go!(bincode::Deserializer::from_slice(stream, base.with_fixint_encoding().with_big_endian())),
            _ => go!(bincode::Deserializer::from_slice(stream, base.with_fixint_encoding().with_little_endian())),
        };
        // reject_trailing_bytes is enforced by Options::deserialize, not by a bare Deserializer: the trusted byte
        // extractor (same options, strict) must have consumed the whole stream
        if plain_load(ty, fmt, stream).is_some() {
            Some(v)
        } else {
            None
        }
    } else {
        let mut d = serde_json::Deserializer::from_slice(stream);
        let v = if in_place { typed_in_place(ty, &mut d).ok()? } else { typed(ty, &mut d).ok()? };
        d.end().ok()?;
        Some(v)
    }
}

/// how many bytes a bincode stream of this type occupies: fixed, or 8 + prefix
fn plain_consumed_all_bincode(ty: u8, stream: &[u8]) -> bool {
    if is_bytes_type(ty) {
        if stream.len() < 8 {
            return false;
        }
        let mut l = [0u8; 8];
        l.copy_from_slice(&stream[..8]);
        (u64::from_le_bytes(l) as u128) + 8 == stream.len() as u128
    } else {
        stream.len() == payload_len(ty)
    }
}

pub fn real_apply(st: &Step) -> Out {
    let mut o = Obs::new();
    match st {
        Step::Store { ty, v, fmt } => {
            let val = match build(*ty, v) {
                Some(x) => x,
                None => return Out::Skip,
            };
            match store(&val, *fmt) {
                Some(s) => {
                    o.b("stream", &s);
                }
                None => {
                    o.b("stream", b"<serialisation failed>");
                }
            }
        }
        Step::Load { ty, fmt, stream } => {
            let v = typed_load(*ty, *fmt, &stream.0);
            o.f("ok", v.is_some());
            // a deserialised point must be a consistent representation (all four extended coordinates)
            let repr_ok = match &v {
                Some(Val::Ed(p)) => refmodel::ed::check_extended(&curve25519_dalek::verif_hooks::edwards_coords(p)).is_ok(),
                Some(Val::Ris(p)) => {
                    refmodel::ed::check_extended(&curve25519_dalek::verif_hooks::edwards_coords(&curve25519_dalek::verif_hooks::ristretto_inner(p))).is_ok()
                }
                _ => true,
            };
            o.b("val", &v.as_ref().map(|v| v.canon()).unwrap_or_default());
            o.f("repr_ok", repr_ok);
            o.b("derived", &v.as_ref().map(|v| v.derived()).unwrap_or_default());
            PLACE_INVALID.with(|c| c.set(false));
            let w = typed_load_with(*ty, *fmt, &stream.0, true);
            o.f("inplace_object_valid", !PLACE_INVALID.with(|c| c.get()));
            o.f("inplace_ok", w.is_some());
            o.b("inplace_val", &w.as_ref().map(|v| v.canon()).unwrap_or_default());
            o.b("inplace_derived", &w.as_ref().map(|v| v.derived()).unwrap_or_default());
        }
        Step::SimFmt { ty, v, shape, len, extra, err_at, tk } => {
            let n = (*len as usize).min(v.0.len());
            let mut items: Vec<Item> = v.0[..n].iter().map(|b| Item::Byte(*b)).collect();
            for i in 0..*extra {
                items.push(if *tk == 1 { Item::Unparsable } else { Item::Byte(i as u8) });
            }
            let mut de = SimDe { shape: *shape, items: items.clone(), pos: 0, err_at: *err_at as usize, payload: v.0[..n].to_vec() };
            let r = typed(*ty, &mut de);
            let ok = match &r {
                Ok(_) => de.finish().is_ok(),
                Err(_) => false,
            };
            o.f("ok", ok);
            o.b("val", &if ok { r.as_ref().ok().unwrap().canon() } else { Vec::new() });
            o.b("derived", &if ok { r.as_ref().ok().unwrap().derived() } else { Vec::new() });
            let mut de = SimDe { shape: *shape, items, pos: 0, err_at: *err_at as usize, payload: v.0[..n].to_vec() };
            PLACE_INVALID.with(|c| c.set(false));
            let r = typed_in_place(*ty, &mut de);
            o.f("inplace_object_valid", !PLACE_INVALID.with(|c| c.get()));
            let ok = match &r {
                Ok(_) => de.finish().is_ok(),
                Err(_) => false,
            };
            o.f("inplace_ok", ok);
            o.b("inplace_val", &if ok { r.ok().unwrap().canon() } else { Vec::new() });
        }
        _ => return Out::Skip,
    }
    Out::Obs(o)
}

// ------------------------------------------------------------------ SimFormat: a fault-injecting Deserializer (STUB format)

#[derive(Clone, Copy)]
enum Item {
    Byte(u8),
    /// an element that is present but does not parse as the requested type (300, "x", ...)
    Unparsable,
}

struct SimDe {
    shape: u8,
    items: Vec<Item>,
    pos: usize,
    err_at: usize,
    payload: Vec<u8>,
}

#[derive(Debug)]
struct SimErr(String);
impl std::fmt::Display for SimErr {
    fn fmt(&self, f: &mut std::fmt::Formatter<'_>) -> std::fmt::Result {
        f.write_str(&self.0)
    }
}
impl std::error::Error for SimErr {}
impl de::Error for SimErr {
    fn custom<T: std::fmt::Display>(msg: T) -> Self {
        SimErr(msg.to_string())
    }
}

impl SimDe {
    /// the format's own end-of-value check, as serde_json's end_seq does: trailing elements are an error
    fn finish(&self) -> Result<(), SimErr> {
        if self.shape == 0 && self.pos < self.items.len() {
            Err(SimErr("trailing elements".into()))
        } else {
            Ok(())
        }
    }
    fn go<'de, V: Visitor<'de>>(&mut self, visitor: V) -> Result<V::Value, SimErr> {
        match self.shape {
            0 => visitor.visit_seq(SimSeq { de: self }),
            1 | 3 => {
                if self.err_at == 0 {
                    return Err(SimErr("injected I/O error".into()));
                }
                let p = self.payload.clone();
                visitor.visit_bytes(&p)
            }
            _ => {
                if self.err_at == 0 {
                    return Err(SimErr("injected I/O error".into()));
                }
                visitor.visit_byte_buf(self.payload.clone())
            }
        }
    }
}

struct SimSeq<'a> {
    de: &'a mut SimDe,
}

impl<'de, 'a> SeqAccess<'de> for SimSeq<'a> {
    type Error = SimErr;
    fn next_element_seed<T: DeserializeSeed<'de>>(&mut self, seed: T) -> Result<Option<T::Value>, SimErr> {
        if self.de.pos == self.de.err_at {
            self.de.pos += 1;
            self.de.err_at = usize::MAX;
            return Err(SimErr("injected I/O error".into()));
        }
        if self.de.pos >= self.de.items.len() {
            return Ok(None);
        }
        let it = self.de.items[self.de.pos];
        self.de.pos += 1;
        match it {
            Item::Byte(b) => seed.deserialize(ByteDe(b)).map(Some),
            Item::Unparsable => Err(SimErr("invalid value: integer `300`, expected u8".into())),
        }
    }
}

struct ByteDe(u8);
impl<'de> de::Deserializer<'de> for ByteDe {
    type Error = SimErr;
    fn deserialize_any<V: Visitor<'de>>(self, v: V) -> Result<V::Value, SimErr> {
        v.visit_u8(self.0)
    }
    serde::forward_to_deserialize_any! {
        bool i8 i16 i32 i64 i128 u8 u16 u32 u64 u128 f32 f64 char str string bytes byte_buf option unit
        unit_struct newtype_struct seq tuple tuple_struct map struct enum identifier ignored_any
    }
}

impl<'de, 'a> de::Deserializer<'de> for &'a mut SimDe {
    type Error = SimErr;
    fn deserialize_any<V: Visitor<'de>>(self, v: V) -> Result<V::Value, SimErr> {
        self.go(v)
    }
    fn deserialize_newtype_struct<V: Visitor<'de>>(self, _name: &'static str, v: V) -> Result<V::Value, SimErr> {
        v.visit_newtype_struct(self)
    }
    serde::forward_to_deserialize_any! {
        bool i8 i16 i32 i64 i128 u8 u16 u32 u64 u128 f32 f64 char str string bytes byte_buf option unit
        unit_struct seq tuple tuple_struct map struct enum identifier ignored_any
    }
}

// ------------------------------------------------------------------ fault enumeration on the stored stream

fn base64(v: &[u8]) -> String {
    const A: &[u8; 64] = b"ABCDEFGHIJKLMNOPQRSTUVWXYZabcdefghijklmnopqrstuvwxyz0123456789+/";
    let mut out = String::new();
    for ch in v.chunks(3) {
        let n = (ch[0] as u32) << 16 | (*ch.get(1).unwrap_or(&0) as u32) << 8 | *ch.get(2).unwrap_or(&0) as u32;
        for i in 0..4 {
            if i <= ch.len() {
                out.push(A[(n >> (18 - 6 * i) & 63) as usize] as char);
            } else {
                out.push('=');
            }
        }
    }
    out
}

fn json_tokens(v: &[u8]) -> Vec<String> {
    v.iter().map(|b| b.to_string()).collect()
}

fn json_of(tokens: &[String]) -> Vec<u8> {
    format!("[{}]", tokens.join(",")).into_bytes()
}

/// Every fault the enumeration covers for one stored record, as concrete loads. Deterministic.
pub fn expand(st: &Step, c: &mut Counters) -> Vec<Step> {
    let (ty, v, fmt) = match st {
        Step::Disk { ty, v, fmt } => (*ty, v, *fmt),
        _ => return Vec::new(),
    };
    let mut out = Vec::new();
    out.push(Step::Store { ty, v: v.clone(), fmt });
    let clean = canonical_stream(ty, &v.0, fmt);
    let mut push = |c: &mut Counters, kind: &str, s: Vec<u8>| {
        bump(c, kind);
        out.push(Step::Load { ty, fmt, stream: B(s) });
    };
    push(c, "enum:clean", clean.clone());
    // truncation at every byte offset
    for n in 0..clean.len() {
        push(c, "enum:truncate", clean[..n].to_vec());
    }
    // every single-bit flip
    for i in 0..clean.len() * 8 {
        let mut s = clean.clone();
        s[i / 8] ^= 1 << (i % 8);
        push(c, "enum:bitflip", s);
    }
    // trailing garbage of 1..8 bytes, three fillings
    for n in 1..=8usize {
        for fill in [0u8, 0xff, b' ', b'7', b','] {
            let mut s = clean.clone();
            s.extend(std::iter::repeat(fill).take(n));
            push(c, "enum:trailing_bytes", s);
        }
    }
    // duplicated block (lost seek: the record written twice, and its first half repeated)
    {
        let mut s = clean.clone();
        s.extend_from_slice(&clean);
        push(c, "enum:duplicated_record", s);
        let mut s = clean[..clean.len() / 2].to_vec();
        s.extend_from_slice(&clean);
        push(c, "enum:duplicated_block", s);
    }
    if fmt != 1 && ty == 6 {
        // a 64-byte keypair (seed || matching public key) where a 32-byte seed is expected
        let mut body = v.0.clone();
        body.extend_from_slice(&refmodel::eddsa::public_key(&v.a32()));
        push(c, "enum:keypair_for_seed", canonical_stream(ty, &body, fmt));
    }
    if fmt == 1 && ty == 6 {
        let mut body = v.0.clone();
        body.extend_from_slice(&refmodel::eddsa::public_key(&v.a32()));
        push(c, "enum:keypair_for_seed", canonical_stream(ty, &body, 1));
    }
    if fmt == 0 && is_bytes_type(ty) {
        // length prefix says more / fewer bytes than present, with matching and non-matching payloads
        for l in [0u64, 1, 31, 33, 64, 255, 1 << 20, u64::MAX] {
            let mut s = l.to_le_bytes().to_vec();
            s.extend_from_slice(&v.0);
            push(c, "enum:length_prefix", s);
            let mut s = l.to_le_bytes().to_vec();
            let mut body = v.0.clone();
            body.resize((l as usize).min(80), 0x5a);
            s.extend_from_slice(&body);
            push(c, "enum:length_prefix_consistent", s);
        }
    }
    if fmt == 1 {
        let toks = json_tokens(&v.0);
        let n = toks.len();
        // delete / duplicate each element
        for k in 0..n {
            let mut t = toks.clone();
            t.remove(k);
            push(c, "enum:json_delete_element", json_of(&t));
            let mut t = toks.clone();
            t.insert(k, toks[k].clone());
            push(c, "enum:json_duplicate_element", json_of(&t));
        }
        // append one element of every kind: valid u8, out-of-range, negative, other JSON types
        for extra in ["0", "7", "255", "256", "300", "-1", "1.5", "1e2", "\"x\"", "null", "true", "[]", "{}", "[1]", "99999999999999999999"] {
            let mut t = toks.clone();
            t.push(extra.to_string());
            push(c, "enum:json_append_element", json_of(&t));
            let mut t = toks.clone();
            t.push(extra.to_string());
            t.push("5".to_string());
            push(c, "enum:json_append_two_elements", json_of(&t));
            let mut t = toks.clone();
            t.insert(0, extra.to_string());
            push(c, "enum:json_prepend_element", json_of(&t));
        }
        // digit insertion into each element (value may leave the u8 range), element replaced by another type
        for k in 0..n {
            let mut t = toks.clone();
            t[k] = format!("{}0", toks[k]);
            push(c, "enum:json_digit_insertion", json_of(&t));
            let mut t = toks.clone();
            t[k] = format!("3{}", toks[k]);
            push(c, "enum:json_digit_insertion", json_of(&t));
            let mut t = toks.clone();
            t[k] = format!("\"{}\"", toks[k]);
            push(c, "enum:json_element_type_confusion", json_of(&t));
            let mut t = toks.clone();
            t[k] = "null".into();
            push(c, "enum:json_element_type_confusion", json_of(&t));
        }
        // very long sequences: the value followed by many more elements (counters must not wrap)
        for extra in [223usize, 224, 225, 255, 256, 257, 512, 65536 - 32, 65536] {
            let mut t = toks.clone();
            for i in 0..extra {
                t.push(((i * 7) % 256).to_string());
            }
            push(c, "enum:json_very_long_sequence", json_of(&t));
        }
        // framing
        let inner = String::from_utf8(json_of(&toks)).unwrap();
        for s in [
            format!("[{}]", inner),
            format!("{} ", inner),
            format!(" {}", inner),
            format!("{}{}", inner, inner),
            format!("{},1", inner),
            format!("{{\"k\":{}}}", inner),
            format!("\"{}\"", toks.join("")),
            inner.replace(',', " , "),
            inner.replace('[', "[ ").replace(']', " ]"),
            inner.replace(']', ",]"),
            "[]".to_string(),
            "null".to_string(),
            String::new(),
        ] {
            push(c, "enum:json_framing", s.into_bytes());
        }
        // the record re-encoded as text, as a human-readable format or a lenient hand-written visitor might accept it
        let hexs: String = v.0.iter().map(|b| format!("{:02x}", b)).collect();
        let latin: String = v.0.iter().map(|b| format!("\\u00{:02x}", b)).collect();
        for s in [
            format!("\"{}\"", hexs),
            format!("\"{}\"", hexs.to_uppercase()),
            format!("\"0x{}\"", hexs),
            format!("\"{}\"", base64(&v.0)),
            format!("\"{}\"", latin),
            format!("[\"{}\"]", hexs),
            format!("{{\"bytes\":{}}}", inner),
            format!("[{}]", v.0.iter().map(|b| format!("\"{}\"", b)).collect::<Vec<_>>().join(",")),
            format!("[{}]", v.0.iter().map(|b| format!("{}.0", b)).collect::<Vec<_>>().join(",")),
        ] {
            push(c, "enum:json_text_form", s.into_bytes());
        }
    }
    // the record overwritten by another well-formed record whose payload is a boundary value of the
    // type's validity rule (group order, field prime and its neighbours, exceptional field elements)
    if payload_len(ty) == 32 {
        let l = refmodel::sc::l();
        let one = refmodel::U256::ONE;
        let mut specials: Vec<[u8; 32]> = vec![
            l.to_le_bytes(),
            l.sub_borrow(&one).0.to_le_bytes(),
            l.add_carry(&one).0.to_le_bytes(),
            l.mul_small(2).0.to_le_bytes(),
            l.mul_small(8).0.to_le_bytes(),
            [0u8; 32],
            [0xff; 32],
            refmodel::fp::Fp::ONE.neg().to_bytes(),
            refmodel::fp::Fp::sqrt_m1().to_bytes(),
            refmodel::fp::Fp::sqrt_m1().neg().to_bytes(),
            refmodel::fp::Fp::ONE.to_bytes(),
        ];
        for k in 0..19u64 {
            specials.push(crate::dict::p_plus(k));
        }
        // structured neighbours of l, deterministic per record
        let mut r = simcore::Prng::new(simcore::fnv1a(&v.0) ^ 0x6e6c);
        for _ in 0..24 {
            specials.push(crate::dict::near_l_structured(&mut r));
        }
        for _ in 0..24 {
            specials.push(crate::dict::near_p_structured(&mut r));
        }
        let n0 = specials.len();
        for i in 0..n0 {
            let mut b = specials[i];
            b[31] ^= 0x80;
            specials.push(b);
        }
        for sp in specials {
            push(c, "enum:boundary_payload", canonical_stream(ty, &sp, fmt));
            if fmt == 1 {
                let hexs: String = sp.iter().map(|b| format!("{:02x}", b)).collect();
                push(c, "enum:boundary_payload_as_text", format!("\"{}\"", hexs).into_bytes());
            }
        }
    }
    // SimFormat: the same record delivered at the serde data-model level
    let want = payload_len(ty) as u16;
    for shape in 0..4u8 {
        for (len, extra, err_at, tk) in [
            (want, 0u16, 65535u16, 0u8),
            (want - 1, 0, 65535, 0),
            (0, 0, 65535, 0),
            (want, 1, 65535, 0),
            (want, 1, 65535, 1),
            (want, 2, 65535, 1),
            (want, 3, 65535, 0),
            (want, 0, 0, 0),
            (want, 0, want / 2, 0),
            (want, 0, want - 1, 0),
            (want, 0, want, 0),
            (want, 2, want, 0),
            (want, 2, want + 1, 0),
            (want, 1, want, 1),
        ] {
            bump(c, &format!("enum:simformat_shape{}", shape));
            out.push(Step::SimFmt { ty, v: v.clone(), shape, len, extra, err_at, tk });
        }
    }
    out
}
