use crate::env::Out;
use simcore::{Counters, Step};
pub fn model_apply(_s: &Step) -> Out { Out::Skip }
pub fn real_apply(_s: &Step) -> Out { Out::Skip }
pub fn expand(_s: &Step, _c: &mut Counters) -> Vec<Step> { Vec::new() }
pub fn ty_name(_t: u8) -> &'static str { "?" }
