//! Lockstep executor: every step is applied to the reference model and to the real library; what
//! each lets an observer see is compared. Never consults the PRNG.

use crate::env::{guarded, take_dispatch_counts, Obs, Out};
use crate::{disk, group, wire};
use simcore::{bump, bump_by, Counters, Plan, Step, Violation};

pub struct World {
    pub mg: group::ModelG,
    pub rg: group::RealG,
    pub mw: wire::ModelW,
    pub rw: wire::RealW,
}

impl World {
    pub fn new() -> World {
        World { mg: group::ModelG::new(), rg: group::RealG::new(), mw: wire::ModelW::new(), rw: wire::RealW::new() }
    }
}

pub struct RunResult {
    pub violation: Option<Violation>,
    /// (step index, hash of what the real code let an observer see)
    pub log: Vec<(usize, u64)>,
    pub counters: Counters,
    /// signature of the run for the distinct-cases measure
    pub signature: u64,
    pub executed: u64,
    pub skipped: u64,
}

/// properties a step kind is evidence for (a result that differs from the model violates these)
pub fn owners(st: &Step) -> Vec<&'static str> {
    match st {
        Step::Dec { g, .. } => {
            if *g == 0 {
                vec!["C03"]
            } else {
                vec!["C06"]
            }
        }
        Step::Const { g, .. }
        | Step::Bin { g, .. }
        | Step::Neg { g, .. }
        | Step::Dbl { g, .. }
        | Step::Sum { g, .. }
        | Step::Sel { g, .. }
        | Step::Eq { g, .. }
        | Step::Zero { g, .. }
        | Step::Cmp { g, .. } => {
            if *g == 0 {
                vec!["C03"]
            } else {
                vec!["C06"]
            }
        }
        Step::Cof { .. } | Step::Pred { .. } | Step::Cofac { .. } => vec!["C03"],
        Step::SArith { .. } => vec!["C11"],
        Step::Rand { g, .. } => {
            if *g == 0 {
                vec!["C03"]
            } else {
                vec!["C06"]
            }
        }
        Step::MBase { .. } => vec!["C07", "C04"],
        Step::Uni { .. } => vec!["C06"],
        Step::Batch { .. } | Step::Rerep { .. } | Step::FromEd { .. } => vec!["C06"],
        Step::Mul { g, .. } | Step::MulBase { g, .. } | Step::Table { g, .. } | Step::TUse { g, .. } | Step::PUse { g, .. } | Step::Dbl2 { g, .. } | Step::Msm { g, .. } | Step::Pre { g, .. } => {
            // the Ristretto wrappers are also "group operations are the images of the Edwards operations" (C06)
            if *g == 1 {
                vec!["C04", "C06"]
            } else {
                vec!["C04"]
            }
        }
        Step::Clamp { .. } => vec!["C04"],
        Step::ToMont { .. } => vec!["C07"],
        Step::XKey { .. } | Step::XDh { .. } | Step::XRaw { .. } | Step::SConv { .. } | Step::MEq { .. } => vec!["C07"],
        Step::MMul { .. } | Step::MBits { .. } => vec!["C07", "C04"],
        Step::MToEd { .. } => vec!["C07"],
        Step::SKey { .. } | Step::Sign { .. } => vec!["C08"],
        Step::Ver { .. } => vec!["C09", "C08"],
        Step::BQ { .. } | Step::BFlush { .. } => vec!["C13", "C08"],
        Step::Decode { .. } => vec!["C15"],
        Step::Disk { .. } | Step::Store { .. } | Step::Load { .. } | Step::SimFmt { .. } => vec!["C16"],
    }
}

/// does the step hand untrusted bytes to the library (a panic is then a C15 violation)?
pub fn untrusted(st: &Step) -> bool {
    matches!(
        st,
        Step::Dec { .. }
            | Step::Uni { .. }
            | Step::XDh { .. }
            | Step::XRaw { .. }
            | Step::MMul { .. }
            | Step::MBits { .. }
            | Step::MToEd { .. }
            | Step::MEq { .. }
            | Step::SKey { .. }
            | Step::Ver { .. }
            | Step::BQ { .. }
            | Step::BFlush { .. }
            | Step::Decode { .. }
            | Step::Disk { .. }
            | Step::Load { .. }
            | Step::SimFmt { .. }
    )
}

/// plain prehashed verification with a context longer than the documented 255 bytes
fn unlogged(st: &Step) -> bool {
    matches!(st, Step::Ver { mode, ctx: Some(c), .. } if c.0.len() > 255 && matches!(mode, 3 | 4 | 6 | 10 | 11 | 12 | 13 | 14))
}

fn class_of(step: &Step, label: &str) -> String {
    format!("{}:{}", step.kind(), label)
}

/// Execute one concrete (non-expanding) step. Returns Ok(Some(hash)) when executed, Ok(None) when skipped.
fn one(w: &mut World, i: usize, st: &Step, c: &mut Counters) -> Result<Option<(u64, u64)>, Violation> {
    let is_group = matches!(
        st,
        Step::Dec { .. }
            | Step::Const { .. }
            | Step::Uni { .. }
            | Step::Bin { .. }
            | Step::Neg { .. }
            | Step::Dbl { .. }
            | Step::Cof { .. }
            | Step::Sum { .. }
            | Step::Sel { .. }
            | Step::Mul { .. }
            | Step::MulBase { .. }
            | Step::Clamp { .. }
            | Step::Table { .. }
            | Step::Dbl2 { .. }
            | Step::Msm { .. }
            | Step::Pre { .. }
            | Step::Cmp { .. }
            | Step::Eq { .. }
            | Step::Pred { .. }
            | Step::Zero { .. }
            | Step::SArith { .. }
            | Step::ToMont { .. }
            | Step::Batch { .. }
            | Step::Rerep { .. }
            | Step::FromEd { .. }
            | Step::Rand { .. }
            | Step::Cofac { .. }
            | Step::TUse { .. }
            | Step::PUse { .. }
    );
    let is_disk = matches!(st, Step::Store { .. } | Step::Load { .. } | Step::SimFmt { .. });
    let m = if is_group {
        w.mg.apply(st)
    } else if is_disk {
        disk::model_apply(st)
    } else {
        w.mw.apply(st)
    };
    let mo = match m {
        Out::Skip => return Ok(None),
        Out::Obs(o) => o,
    };
    let props = || owners(st).iter().map(|s| s.to_string()).collect::<Vec<_>>();
    let r = if is_group {
        let rg = &mut w.rg;
        guarded(|| rg.apply(st))
    } else if is_disk {
        guarded(|| disk::real_apply(st))
    } else {
        let rw = &mut w.rw;
        guarded(|| rw.apply(st))
    };
    crate::env::set_dispatch(0);
    match r {
        Err(msg) => {
            bump(c, "outcome:panic");
            let mut p = props();
            if cfg!(debug_assertions) && !p.contains(&"C11".to_string()) {
                p.push("C11".into());
            }
            if untrusted(st) && !p.contains(&"C15".to_string()) {
                p.push("C15".into());
            }
            Err(Violation { props: p, step: i, step_kind: st.kind().into(), class: class_of(st, "panic"), detail: format!("panic: {}", msg) })
        }
        Ok(Out::Skip) => Err(Violation {
            props: props(),
            step: i,
            step_kind: st.kind().into(),
            class: class_of(st, "real_skipped"),
            detail: "real world could not execute a step the model executed".into(),
        }),
        Ok(Out::Obs(ro)) => {
            let h = ro.hash();
            // outcome class for the distinct-cases signature: labels and flag values, not payload bytes
            let mut cls = Vec::new();
            for (l, v) in &ro.0 {
                cls.extend_from_slice(l.as_bytes());
                if v.len() == 1 {
                    cls.push(v[0]);
                }
            }
            let cls_h = simcore::fnv1a(&cls);
            match ro.diff(&mo) {
                // executed only to see that it returns (outside the documented domain, and not executed at all in
                // checked builds): kept out of the event log so that logs stay comparable across profiles
                None if unlogged(st) => Ok(None),
                None => Ok(Some((h, cls_h))),
                Some(d) => {
                    bump(c, "outcome:mismatch");
                    let label = first_diff_label(&ro, &mo);
                    let mut p = props();
                    // "reports malformed input as None or Err" (C15): an accept/reject disagreement of a decoder fed untrusted bytes
                    if untrusted(st) && matches!(label.as_str(), "some" | "ok" | "key_ok" | "sig_ok" | "repr_ok" | "valid") && !p.contains(&"C15".to_string()) {
                        p.push("C15".into());
                    }
                    // a point handed out with inconsistent coordinates is a C03 matter whichever operation produced it
                    if matches!(label.as_str(), "repr_ok" | "aff" | "table_basepoint_representation_invalid") && is_group && !p.contains(&"C03".to_string()) {
                        p.push("C03".into());
                    }
                    // the signer's verification wrappers are verification paths too (C09)
                    if (label.starts_with("wrapper_") || label == "self_verify") && !p.contains(&"C09".to_string()) {
                        p.push("C09".into());
                    }
                    Err(Violation { props: p, step: i, step_kind: st.kind().into(), class: class_of(st, &label), detail: d })
                }
            }
        }
    }
}

fn first_diff_label(r: &Obs, m: &Obs) -> String {
    for i in 0..r.0.len().max(m.0.len()) {
        if let (Some(a), Some(b)) = (r.0.get(i), m.0.get(i)) {
            if a.0 == b.0 && b.1 == crate::env::WILDCARD {
                continue;
            }
        }
        if r.0.get(i) != m.0.get(i) {
            return r.0.get(i).or(m.0.get(i)).map(|x| x.0.to_string()).unwrap_or_default();
        }
    }
    String::new()
}

pub fn execute(plan: &Plan) -> RunResult {
    let mut w = World::new();
    let mut c = Counters::new();
    let mut log = Vec::new();
    let mut sig_acc: Vec<u8> = Vec::new();
    let mut executed = 0u64;
    let mut skipped = 0u64;
    let mut violation = None;
    let _ = take_dispatch_counts();
    'outer: for (i, st) in plan.steps.iter().enumerate() {
        // the disk fault enumeration expands into concrete loads
        let subs: Vec<Step> = match st {
            Step::Disk { .. } => disk::expand(st, &mut c),
            _ => Vec::new(),
        };
        let list: &[Step] = if matches!(st, Step::Disk { .. }) { &subs } else { std::slice::from_ref(st) };
        for sub in list {
            match one(&mut w, i, sub, &mut c) {
                Ok(Some((h, cls))) => {
                    executed += 1;
                    log.push((i, h));
                    bump(&mut c, &format!("step:{}", sub.kind()));
                    sig_acc.extend_from_slice(sub.kind().as_bytes());
                    sig_acc.extend_from_slice(&cls.to_le_bytes());
                }
                Ok(None) => {
                    skipped += 1;
                    bump(&mut c, "step:skipped");
                }
                Err(mut v) => {
                    if matches!(st, Step::Disk { .. }) {
                        // narrow the replay to the one concrete load
                        v.detail = format!("{} | narrowed: {}", v.detail, serde_json::to_string(sub).unwrap_or_default());
                    }
                    violation = Some((v, sub.clone()));
                    break 'outer;
                }
            }
        }
    }
    let dc = take_dispatch_counts();
    for (k, n) in ["auto", "serial", "avx2", "ifma", "preferred_backend_unavailable"].iter().zip(dc.iter()) {
        if *n > 0 {
            bump_by(&mut c, &format!("dispatch:{}", k), *n);
        }
    }
    sig_acc.extend_from_slice(&dc[1].min(1).to_le_bytes());
    sig_acc.extend_from_slice(&dc[2].min(1).to_le_bytes());
    sig_acc.extend_from_slice(&dc[3].min(1).to_le_bytes());
    let signature = simcore::fnv1a(&sig_acc);
    let violation = violation.map(|(v, _)| v);
    RunResult { violation, log, counters: c, signature, executed, skipped }
}

/// For a violation inside a Disk enumeration: the concrete sub-step that failed, for the replay file.
pub fn narrow_disk(plan: &Plan, v: &Violation) -> Option<Step> {
    let st = plan.steps.get(v.step)?;
    if !matches!(st, Step::Disk { .. }) {
        return None;
    }
    let mut c = Counters::new();
    let mut w = World::new();
    for sub in disk::expand(st, &mut c) {
        if one(&mut w, 0, &sub, &mut c).is_err() {
            return Some(sub);
        }
    }
    None
}
