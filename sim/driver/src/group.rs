//! `group` family: register files of Edwards / Ristretto points, stepped in lockstep by the real
//! library and by the affine reference model.

#![allow(non_snake_case)]

use crate::env::{set_dispatch, Obs, Out, Plain};
use curve25519_dalek::constants;
use curve25519_dalek::edwards::{CompressedEdwardsY, EdwardsPoint, VartimeEdwardsPrecomputation};
use curve25519_dalek::ristretto::{CompressedRistretto, RistrettoPoint, VartimeRistrettoPrecomputation};
use curve25519_dalek::scalar::Scalar;
use curve25519_dalek::traits::{
    Identity, IsIdentity, MultiscalarMul, VartimeMultiscalarMul, VartimePrecomputedMultiscalarMul,
};
use curve25519_dalek::verif_hooks;
use group::{Group, GroupEncoding};
use refmodel::ed::{self, Pt};
use refmodel::{ristretto as mr, sc};
use simcore::{Sc, Step, H};
use subtle::{Choice, ConditionallySelectable};
#[cfg(feature = "zz")]
use zeroize::Zeroize;

pub const NREG: usize = 32;

// ------------------------------------------------------------------ scalars

#[allow(deprecated)]
pub fn sc_real(s: &Sc) -> Scalar {
    let a = s.b.a32();
    match s.k {
        1 => Option::<Scalar>::from(Scalar::from_canonical_bytes(a)).unwrap_or_else(|| Scalar::from_bytes_mod_order(a)),
        2 => Scalar::from_bits(a),
        _ => Scalar::from_bytes_mod_order(a),
    }
}

/// the integer the scalar argument denotes, little-endian
pub fn sc_int(s: &Sc) -> Vec<u8> {
    let mut a = s.b.a32();
    match s.k {
        1 if refmodel::Sc::is_canonical_bytes(&a) => a.to_vec(),
        2 => {
            a[31] &= 0x7f;
            a.to_vec()
        }
        _ => refmodel::Sc::from_bytes_mod_order(&a).to_bytes().to_vec(),
    }
}

// ------------------------------------------------------------------ model world

pub struct ModelG {
    pub e: Vec<Option<Pt>>,
    pub r: Vec<Option<Pt>>,
    /// base point of the table object kept in each slot (group, point)
    pub tslot: Vec<Option<(u8, Pt)>>,
    /// static points of the precomputation object kept in each slot
    pub pslot: Vec<Option<(u8, Vec<Pt>)>>,
}

pub const NSLOT: usize = 4;

fn menc(g: u8, p: &Pt) -> [u8; 32] {
    if g == 0 {
        p.encode()
    } else {
        mr::encode(p)
    }
}

/// observation of a freshly defined handle, model side
fn mobs(o: &mut Obs, g: u8, p: &Pt) {
    o.b("enc", &menc(g, p));
    if g == 0 {
        // the real side reports the affine point read from its raw coordinates
        o.b("aff", &p.encode());
    }
    o.f("repr_ok", true);
}

impl ModelG {
    pub fn new() -> ModelG {
        ModelG { e: vec![None; NREG], r: vec![None; NREG], tslot: vec![None; NSLOT], pslot: vec![None; NSLOT] }
    }
    fn file(&mut self, g: u8) -> &mut Vec<Option<Pt>> {
        if g == 0 {
            &mut self.e
        } else {
            &mut self.r
        }
    }
    fn get(&self, g: u8, h: H) -> Option<Pt> {
        let f = if g == 0 { &self.e } else { &self.r };
        f.get(h as usize).copied().flatten()
    }
    fn set(&mut self, g: u8, dst: H, p: Pt, o: &mut Obs) {
        mobs(o, g, &p);
        let f = self.file(g);
        if (dst as usize) < f.len() {
            f[dst as usize] = Some(p);
        }
    }

    pub fn apply(&mut self, st: &Step) -> Out {
        let mut o = Obs::new();
        macro_rules! need {
            ($g:expr, $h:expr) => {
                match self.get($g, $h) {
                    Some(p) => p,
                    None => return Out::Skip,
                }
            };
        }
        match st {
            Step::Dec { g, dst, b, via: _ } => {
                let p = if b.0.len() == 32 {
                    if *g == 0 {
                        Pt::decode(&b.a32())
                    } else {
                        mr::decode(&b.a32())
                    }
                } else {
                    None
                };
                o.f("some", p.is_some());
                match p {
                    Some(p) => {
                        if *g == 1 {
                            // decoding succeeds precisely for canonical encodings: re-encoding returns the input
                            o.b("reenc", &b.0);
                        }
                        self.set(*g, *dst, p, &mut o)
                    }
                    None => {
                        let f = self.file(*g);
                        if (*dst as usize) < f.len() {
                            f[*dst as usize] = None;
                        }
                    }
                }
            }
            Step::Const { g, dst, which } => {
                let p = match *which {
                    1 => ed::basepoint(),
                    w if w >= 3 => {
                        if *g != 0 {
                            return Out::Skip;
                        }
                        ed::torsion_table_documented()[(w as usize - 3) % 8]
                    }
                    _ => Pt::IDENTITY,
                };
                self.set(*g, *dst, p, &mut o);
            }
            Step::Uni { dst, b, via } => {
                let input = if *via == 2 { refmodel::eddsa::sha512(&[&b.0]) } else { b.a64() };
                self.set(1, *dst, mr::from_uniform_bytes(&input), &mut o);
            }
            Step::Bin { g, dst, a, b, sub, via } => {
                let (p, q) = (need!(*g, *a), need!(*g, *b));
                if *via >= 4 && (*g != 0 || !q.is_torsion_free()) {
                    // mixed EdwardsPoint / SubgroupPoint arithmetic needs a torsion-free right operand
                    return Out::Skip;
                }
                let r = if *sub { p.sub(&q) } else { p.add(&q) };
                self.set(*g, *dst, r, &mut o);
            }
            Step::Neg { g, dst, a } => {
                let p = need!(*g, *a);
                self.set(*g, *dst, p.neg(), &mut o);
            }
            Step::Dbl { g, dst, a, .. } => {
                let p = need!(*g, *a);
                self.set(*g, *dst, p.dbl(), &mut o);
            }
            Step::Cof { dst, a } => {
                let p = need!(0, *a);
                self.set(0, *dst, p.mul8(), &mut o);
            }
            Step::Sum { g, dst, hs } => {
                let mut acc = Pt::IDENTITY;
                for h in hs {
                    acc = acc.add(&need!(*g, *h));
                }
                self.set(*g, *dst, acc, &mut o);
            }
            Step::Sel { g, dst, a, b, c, .. } => {
                let (p, q) = (need!(*g, *a), need!(*g, *b));
                self.set(*g, *dst, if *c & 1 == 1 { q } else { p }, &mut o);
            }
            Step::Mul { g, dst, a, s, .. } => {
                let p = need!(*g, *a);
                self.set(*g, *dst, p.mul_le(&sc_int(s)), &mut o);
            }
            Step::MulBase { g, dst, s, .. } => {
                self.set(*g, *dst, ed::basepoint().mul_le(&sc_int(s)), &mut o);
            }
            Step::Clamp { dst, a, k, .. } => {
                let base = match a {
                    Some(h) => need!(0, *h),
                    None => ed::basepoint(),
                };
                self.set(0, *dst, base.mul_le(&sc::clamp(&k.a32())), &mut o);
            }
            Step::Table { g, dst, a, radix: _, s, slot } => {
                // (in builds without precomputed tables the same quantities are computed through the table-less
                // entry points, so that plans and logs stay configuration-independent)
                let p = need!(*g, *a);
                self.tslot[*slot as usize % NSLOT] = Some((*g, p));
                o.b("tbl_base", &menc(*g, &p));
                if *g == 0 {
                    o.b("tbl_clamped", &p.mul_le(&sc::clamp(&s.b.a32())).encode());
                    o.b("tbl_converted", &p.mul_le(&sc_int(s)).encode());
                }
                self.set(*g, *dst, p.mul_le(&sc_int(s)), &mut o);
            }
            Step::TUse { g, dst, slot, s } => {
                let p = match self.tslot[*slot as usize % NSLOT] {
                    Some((tg, p)) if tg == *g => p,
                    _ => return Out::Skip,
                };
                o.b("tbl_base", &menc(*g, &p));
                self.set(*g, *dst, p.mul_le(&sc_int(s)), &mut o);
            }
            Step::PUse { g, dst, slot, entry, ss, ds, dh, .. } => {
                let statics = match &self.pslot[*slot as usize % NSLOT] {
                    Some((tg, v)) if *tg == *g => v.clone(),
                    _ => return Out::Skip,
                };
                if ss.len() > statics.len() || ds.len() != dh.len() || (*entry == 0 && !ds.is_empty()) {
                    return Out::Skip;
                }
                let mut pts = Vec::new();
                let mut ks = Vec::new();
                for (i, s) in ss.iter().enumerate() {
                    pts.push(statics[i]);
                    ks.push(sc_int(s));
                }
                let mut none = false;
                for (s, h) in ds.iter().zip(dh) {
                    match h {
                        Some(h) => {
                            pts.push(need!(*g, *h));
                            ks.push(sc_int(s));
                        }
                        None => {
                            if *entry != 2 {
                                return Out::Skip;
                            }
                            none = true;
                        }
                    }
                }
                o.n("len", statics.len() as u64);
                if *entry == 2 {
                    o.f("some", !none);
                }
                if none {
                    let f = self.file(*g);
                    f[*dst as usize % NREG] = None;
                } else {
                    self.set(*g, *dst, ed::multiscalar(&ks, &pts), &mut o);
                }
            }
            Step::Dbl2 { g, dst, sa, a, sb, .. } => {
                let p = need!(*g, *a);
                let r = p.mul_le(&sc_int(sa)).add(&ed::basepoint().mul_le(&sc_int(sb)));
                self.set(*g, *dst, r, &mut o);
            }
            Step::Msm { g, dst, entry, ss, hs, .. } => {
                if ss.len() != hs.len() {
                    return Out::Skip;
                }
                let mut pts = Vec::new();
                let mut none = false;
                for h in hs {
                    match h {
                        Some(h) => pts.push(need!(*g, *h)),
                        None => {
                            if *entry != 2 {
                                return Out::Skip;
                            }
                            none = true;
                            pts.push(Pt::IDENTITY);
                        }
                    }
                }
                if *entry == 2 {
                    o.f("some", !none);
                }
                if none {
                    let f = self.file(*g);
                    f[*dst as usize % NREG] = None;
                } else if *g == 0 && ss.iter().any(|s| s.k == 2) {
                    // unreduced scalars are outside what C04 promises for the multiscalar entry points: on Edwards points
                    // (where s and s mod l differ on torsion components) the value is not decided here (it is still
                    // logged, so configurations are compared on it) and the handle dies. In the prime-order Ristretto
                    // group the sum is the same element however the integers are read, so there it is decided below.
                    o.any("enc");
                    if *g == 0 {
                        o.any("aff");
                    }
                    o.f("repr_ok", true);
                    let f = self.file(*g);
                    f[*dst as usize % NREG] = None;
                } else {
                    let ks: Vec<Vec<u8>> = ss.iter().map(sc_int).collect();
                    self.set(*g, *dst, ed::multiscalar(&ks, &pts), &mut o);
                }
            }
            Step::Pre { g, dst, entry, st, ss, ds, dh, slot, .. } => {
                if ss.len() > st.len() || ds.len() != dh.len() || (*entry == 0 && !ds.is_empty()) {
                    return Out::Skip;
                }
                let mut pts = Vec::new();
                let mut ks = Vec::new();
                let mut all_statics = Vec::new();
                for h in st.iter() {
                    all_statics.push(need!(*g, *h));
                }
                for (i, s) in ss.iter().enumerate() {
                    pts.push(all_statics[i]);
                    ks.push(sc_int(s));
                }
                // every dynamic handle must exist before anything is stored (no state change on Skip)
                for h in dh.iter().flatten() {
                    let _ = need!(*g, *h);
                }
                if *entry != 2 && dh.iter().any(|h| h.is_none()) {
                    return Out::Skip;
                }
                self.pslot[*slot as usize % NSLOT] = Some((*g, all_statics));
                let mut none = false;
                for (s, h) in ds.iter().zip(dh) {
                    match h {
                        Some(h) => {
                            pts.push(need!(*g, *h));
                            ks.push(sc_int(s));
                        }
                        None => {
                            if *entry != 2 {
                                return Out::Skip;
                            }
                            none = true;
                        }
                    }
                }
                o.n("len", st.len() as u64);
                if *entry == 2 {
                    o.f("some", !none);
                }
                if none {
                    let f = self.file(*g);
                    f[*dst as usize % NREG] = None;
                } else {
                    // (malformed calls on the same object: outcome not decided here, compared across configurations)
                    o.any("too_many_static_scalars_refused");
                    o.any("dynamic_length_mismatch_refused");
                    self.set(*g, *dst, ed::multiscalar(&ks, &pts), &mut o);
                }
            }
            Step::Cmp { g, a } => {
                let p = need!(*g, *a);
                mobs(&mut o, *g, &p);
                o.f("deep_ok", true);
                o.f("is_identity", if *g == 0 { p.is_identity() } else { mr::encode(&p) == [0u8; 32] });
            }
            Step::Eq { g, a, b } => {
                let (p, q) = (need!(*g, *a), need!(*g, *b));
                let eq = if *g == 0 { p == q } else { mr::equal(&p, &q) };
                o.f("eq", eq);
                o.f("enc_eq", menc(*g, &p) == menc(*g, &q));
            }
            Step::Pred { a } => {
                let p = need!(0, *a);
                o.f("is_identity", p.is_identity());
                o.f("is_small_order", p.is_small_order());
                o.f("is_torsion_free", p.is_torsion_free());
            }
            Step::Zero { g, a } => {
                let _ = need!(*g, *a);
                self.set(*g, *a, Pt::IDENTITY, &mut o);
            }
            Step::SArith { .. } => {
                for l in SARITH_LABELS {
                    o.any(l);
                }
            }
            Step::ToMont { a } => {
                let p = need!(0, *a);
                o.b("u", &p.to_montgomery_u().to_bytes());
            }
            Step::Batch { hs } => {
                for h in hs {
                    let p = need!(1, *h);
                    o.b("enc2", &mr::encode(&p.dbl()));
                }
            }
            Step::Rerep { a, .. } => {
                let p = need!(1, *a);
                // same element, other representative
                mobs(&mut o, 1, &p);
                let _ = ed::torsion();
            }
            Step::FromEd { dst, a } => {
                let p = need!(0, *a);
                self.set(1, *dst, p.dbl(), &mut o);
            }
            Step::Rand { g, dst, rng } => {
                // How a random constructor turns RNG output into a point is not part of any property: the value is not
                // decided (it is logged, so configurations are compared on it). What is decided: a valid representation,
                // the same point for the same RNG stream, and (Edwards) not the identity. The handle dies.
                if model_random(*g, &rng.b.0).is_none() {
                    return Out::Skip;
                }
                o.any("enc");
                if *g == 0 {
                    o.any("aff");
                }
                o.f("repr_ok", true);
                o.f("deterministic", true);
                let f = self.file(*g);
                f[*dst as usize % NREG] = None;
            }
            Step::Cofac { dst, a, via } => {
                let p = need!(0, *a);
                match via {
                    0 => self.set(0, *dst, p.mul8(), &mut o),
                    1 => {
                        let tf = p.is_torsion_free();
                        o.f("some", tf);
                        if tf {
                            self.set(0, *dst, p, &mut o);
                        } else {
                            self.e[*dst as usize % NREG] = None;
                        }
                    }
                    _ => {
                        o.f("is_torsion_free", p.is_torsion_free());
                        o.f("is_small_order", p.is_small_order());
                        o.f("is_identity", p.is_identity());
                    }
                }
            }
            _ => return Out::Skip,
        }
        Out::Obs(o)
    }
}

/// What the random constructors must return for a given RNG stream (handed out cyclically).
/// None when the Edwards rejection loop would not terminate within 64 draws.
pub fn model_random(g: u8, stream: &[u8]) -> Option<Pt> {
    let s: &[u8] = if stream.is_empty() { &[0u8] } else { stream };
    if g == 1 {
        let b: Vec<u8> = (0..64).map(|i| s[i % s.len()]).collect();
        return Some(mr::from_uniform_bytes(&refmodel::arr64(&b)));
    }
    for it in 0..64 {
        let b: Vec<u8> = (0..32).map(|i| s[(it * 32 + i) % s.len()]).collect();
        if let Some(p) = Pt::decode(&refmodel::arr32(&b)) {
            if !p.is_identity() {
                return Some(p);
            }
        }
    }
    None
}

// ------------------------------------------------------------------ real world

pub struct RealG {
    pub e: Vec<Option<EdwardsPoint>>,
    pub r: Vec<Option<RistrettoPoint>>,
    /// table objects kept for later reuse
    tslot: Vec<Option<TableObj>>,
    pre_e: Vec<Option<VartimeEdwardsPrecomputation>>,
    pre_r: Vec<Option<VartimeRistrettoPrecomputation>>,
}

/// a basepoint table object of some radix (or, in builds without precomputed tables, just its base point)
#[allow(dead_code)]
enum TableObj {
    #[cfg(feature = "tables")]
    E16(Box<curve25519_dalek::edwards::EdwardsBasepointTableRadix16>),
    #[cfg(feature = "tables")]
    E32(Box<curve25519_dalek::edwards::EdwardsBasepointTableRadix32>),
    #[cfg(feature = "tables")]
    E64(Box<curve25519_dalek::edwards::EdwardsBasepointTableRadix64>),
    #[cfg(feature = "tables")]
    E128(Box<curve25519_dalek::edwards::EdwardsBasepointTableRadix128>),
    #[cfg(feature = "tables")]
    E256(Box<curve25519_dalek::edwards::EdwardsBasepointTableRadix256>),
    #[cfg(feature = "tables")]
    R(Box<curve25519_dalek::ristretto::RistrettoBasepointTable>),
    PlainE(EdwardsPoint),
    PlainR(RistrettoPoint),
}

/// raw-coordinate invariant of an Edwards point: curve equation, Segre relation, Z != 0.
/// Returns the affine point read from the coordinates.
pub const SARITH_LABELS: [&str; 21] = ["add", "sub", "mul", "neg", "square", "double", "field_invert_some", "field_invert", "invert", "sqrt_ratio_is_square", "sqrt_ratio", "sqrt_some", "sqrt", "batch_invert_product", "batch_inverted", "from_repr_some", "from_repr_vartime_some", "is_odd", "sum", "product", "wide"];

fn coords_affine(p: &EdwardsPoint) -> Result<Pt, &'static str> {
    ed::check_extended(&verif_hooks::edwards_coords(p))
}

fn robs_e(o: &mut Obs, p: &EdwardsPoint) {
    o.b("enc", p.compress().as_bytes());
    match coords_affine(p) {
        Ok(a) => {
            o.b("aff", &a.encode());
            o.f("repr_ok", true);
        }
        Err(_) => {
            o.b("aff", &[]);
            o.f("repr_ok", false);
        }
    }
}

fn robs_r(o: &mut Obs, p: &RistrettoPoint) {
    o.b("enc", p.compress().as_bytes());
    o.f("repr_ok", coords_affine(&verif_hooks::ristretto_inner(p)).is_ok());
}

macro_rules! with_iters {
    ($it:expr, $ss:expr, $ps:expr, |$si:ident, $pi:ident| $body:expr) => {{
        let ss = $ss;
        let ps = $ps;
        match $it {
            0 => {
                let $si = ss.iter();
                let $pi = ps.iter();
                $body
            }
            1 => {
                let $si = ss.clone().into_iter();
                let $pi = ps.clone().into_iter();
                $body
            }
            2 => {
                let hs = ss.len() / 2;
                let hp = ps.len() / 2;
                let $si = ss[..hs].iter().chain(ss[hs..].iter());
                let $pi = ps[..hp].iter().chain(ps[hp..].iter());
                $body
            }
            _ => {
                let $si = Plain::new(ss.clone());
                let $pi = Plain::new(ps.clone());
                $body
            }
        }
    }};
}

macro_rules! with_iters_opt {
    ($it:expr, $ss:expr, $ps:expr, |$si:ident, $pi:ident| $body:expr) => {{
        let ss = $ss;
        let ps = $ps;
        match $it {
            0 => {
                let $si = ss.iter();
                let $pi = ps.iter().copied();
                $body
            }
            1 => {
                let $si = ss.clone().into_iter();
                let $pi = ps.clone().into_iter();
                $body
            }
            2 => {
                let hs = ss.len() / 2;
                let hp = ps.len() / 2;
                let $si = ss[..hs].iter().chain(ss[hs..].iter());
                let $pi = ps[..hp].iter().copied().chain(ps[hp..].iter().copied());
                $body
            }
            _ => {
                let $si = Plain::new(ss.clone());
                let $pi = Plain::new(ps.clone());
                $body
            }
        }
    }};
}

/// operations that read the same for both point types
macro_rules! common_ops {
    ($self:ident, $st:ident, $o:ident, $P:ty, $file:ident, $robs:ident, $Pre:ty, $dec:expr, $base:expr, $preslot:ident) => {{
        macro_rules! need {
            ($h:expr) => {
                match $self.$file.get($h as usize).copied().flatten() {
                    Some(p) => p,
                    None => return Out::Skip,
                }
            };
        }
        macro_rules! set {
            ($dst:expr, $p:expr) => {{
                let p: $P = $p;
                $robs(&mut $o, &p);
                if ($dst as usize) < $self.$file.len() {
                    $self.$file[$dst as usize] = Some(p);
                }
            }};
        }
        match $st {
            Step::Dec { dst, b, via, .. } => {
                let p: Option<$P> = $dec(b, *via);
                $o.f("some", p.is_some());
                if b.0.len() == 32 {
                    // the group-trait decoder that "may skip validity checks": on an encoding the checked decoders accept it
                    // must hand out the same element; on one they refuse, whatever it hands out must satisfy the type's
                    // raw-coordinate invariant and, for Ristretto, the property's clause that re-encoding a decoded value
                    // returns the input bytes (C06: no second byte string for a group element through any decoder; for
                    // Edwards, acceptance of a refused encoding stays undecided). Logged only on failure (the model never
                    // logs it), so the event log of a correct tree is unchanged.
                    let u: Option<$P> = Option::from(<$P as GroupEncoding>::from_bytes_unchecked(&b.a32()));
                    let bad = match (&p, &u) {
                        (Some(p), Some(q)) => p != q || p.compress() != q.compress() || !q.repr_ok(),
                        (Some(_), None) => true,
                        (None, Some(q)) => !q.repr_ok() || (<$P>::IS_RISTRETTO && q.compress().as_bytes()[..] != b.0[..]),
                        (None, None) => false,
                    };
                    if bad {
                        $o.f("unchecked_decoder_inconsistent", true);
                    }
                }
                match p {
                    Some(p) => {
                        if <$P>::IS_RISTRETTO {
                            $o.b("reenc", p.compress().as_bytes());
                        }
                        set!(*dst, p)
                    }
                    None => {
                        if (*dst as usize) < $self.$file.len() {
                            $self.$file[*dst as usize] = None;
                        }
                    }
                }
            }
            Step::Const { dst, which, .. } => {
                let p: $P = match which {
                    1 => $base,
                    2 => <$P>::default(),
                    w if *w >= 3 => match <$P>::torsion_const((*w as usize - 3) % 8) {
                        Some(p) => p,
                        None => return Out::Skip,
                    },
                    _ => <$P as Identity>::identity(),
                };
                set!(*dst, p);
            }
            Step::Bin { dst, a, b, sub, via, .. } => {
                let (p, q) = (need!(*a), need!(*b));
                let r = match (*sub, *via) {
                    (false, 0) => &p + &q,
                    (false, 1) => p + q,
                    (false, 2) => {
                        let mut t = p;
                        t += &q;
                        t
                    }
                    (false, _) => p + &q,
                    (true, 0) => &p - &q,
                    (true, 1) => p - q,
                    (true, 2) => {
                        let mut t = p;
                        t -= &q;
                        t
                    }
                    (true, _) => &p - q,
                };
                set!(*dst, r);
            }
            Step::Neg { dst, a, .. } => {
                let p = need!(*a);
                let r = -&p;
                if (-p).compress() != r.compress() {
                    $o.f("neg_variants_disagree", true);
                }
                set!(*dst, r);
            }
            Step::Dbl { dst, a, via, .. } => {
                let p = need!(*a);
                let r = if *via == 1 { Group::double(&p) } else { &p + &p };
                set!(*dst, r);
            }
            Step::Sum { dst, hs, .. } => {
                let mut v = Vec::new();
                for h in hs {
                    v.push(need!(*h));
                }
                let r: $P = v.iter().sum();
                let r2: $P = v.clone().into_iter().sum();
                let r3: $P = crate::env::Loose::new(v.iter().collect::<Vec<_>>()).sum();
                if r.compress() != r2.compress() || r.compress() != r3.compress() {
                    $o.f("sum_variants_disagree", true);
                }
                set!(*dst, r);
            }
            Step::Sel { dst, a, b, c, via, .. } => {
                let (p, q) = (need!(*a), need!(*b));
                let ch = Choice::from(*c & 1);
                let r = if *via == 1 {
                    let mut t = p;
                    t.conditional_assign(&q, ch);
                    t
                } else if *via == 2 {
                    let (mut t, mut u) = (p, q);
                    <$P>::conditional_swap(&mut t, &mut u, ch);
                    // after the swap the pair is still {p, q}
                    let other_ok = if *c & 1 == 1 { u.compress() == p.compress() } else { u.compress() == q.compress() };
                    if !other_ok {
                        $o.f("swap_lost_operand", true);
                    }
                    t
                } else {
                    <$P>::conditional_select(&p, &q, ch)
                };
                set!(*dst, r);
            }
            Step::Mul { dst, a, s, via, d, .. } => {
                let p = need!(*a);
                let k = sc_real(s);
                set_dispatch(*d);
                let r = match via {
                    0 => &p * &k,
                    1 => &k * &p,
                    2 => p * k,
                    _ => {
                        let mut t = p;
                        t *= &k;
                        t
                    }
                };
                set_dispatch(0);
                set!(*dst, r);
            }
            Step::Dbl2 { dst, sa, a, sb, d, .. } => {
                let p = need!(*a);
                let (ka, kb) = (sc_real(sa), sc_real(sb));
                set_dispatch(*d);
                let r = <$P>::vartime_double_scalar_mul_basepoint(&ka, &p, &kb);
                set_dispatch(0);
                set!(*dst, r);
            }
            Step::Msm { dst, entry, ss, hs, it, d, .. } => {
                if ss.len() != hs.len() {
                    return Out::Skip;
                }
                let ks: Vec<Scalar> = ss.iter().map(sc_real).collect();
                let mut opts: Vec<Option<$P>> = Vec::new();
                for h in hs {
                    match h {
                        Some(h) => opts.push(Some(need!(*h))),
                        None => {
                            if *entry != 2 {
                                return Out::Skip;
                            }
                            opts.push(None)
                        }
                    }
                }
                set_dispatch(*d);
                let r: Option<$P> = match entry {
                    0 => {
                        let ps: Vec<$P> = opts.iter().map(|p| p.unwrap()).collect();
                        Some(with_iters!(*it, &ks, &ps, |si, pi| <$P>::multiscalar_mul(si, pi)))
                    }
                    1 => {
                        let ps: Vec<$P> = opts.iter().map(|p| p.unwrap()).collect();
                        Some(with_iters!(*it, &ks, &ps, |si, pi| <$P>::vartime_multiscalar_mul(si, pi)))
                    }
                    _ => {
                        let r = with_iters_opt!(*it, &ks, &opts, |si, pi| <$P>::optional_multiscalar_mul(si, pi));
                        $o.f("some", r.is_some());
                        r
                    }
                };
                set_dispatch(0);
                match r {
                    Some(p) => set!(*dst, p),
                    None => $self.$file[*dst as usize % NREG] = None,
                }
            }
            Step::Pre { dst, entry, st, ss, ds, dh, d, it, slot, .. } => {
                if ss.len() > st.len() || ds.len() != dh.len() || (*entry == 0 && !ds.is_empty()) {
                    return Out::Skip;
                }
                let mut statics: Vec<$P> = Vec::new();
                for h in st {
                    statics.push(need!(*h));
                }
                let sks: Vec<Scalar> = ss.iter().map(sc_real).collect();
                let dks: Vec<Scalar> = ds.iter().map(sc_real).collect();
                let mut dps: Vec<Option<$P>> = Vec::new();
                for h in dh {
                    match h {
                        Some(h) => dps.push(Some(need!(*h))),
                        None => {
                            if *entry != 2 {
                                return Out::Skip;
                            }
                            dps.push(None)
                        }
                    }
                }
                set_dispatch(*d);
                let pre = <$Pre>::new(statics.iter());
                $o.n("len", pre.len() as u64);
                let r: Option<$P> = match (entry, it) {
                    (0, 0) => Some(pre.vartime_multiscalar_mul(sks.iter())),
                    (0, _) => Some(pre.vartime_multiscalar_mul(sks.iter().filter(|_| true))),
                    (1, 0) => {
                        let ps: Vec<$P> = dps.iter().map(|p| p.unwrap()).collect();
                        Some(pre.vartime_mixed_multiscalar_mul(sks.iter(), dks.iter(), ps.iter()))
                    }
                    (1, 1) => {
                        let ps: Vec<$P> = dps.iter().map(|p| p.unwrap()).collect();
                        Some(pre.vartime_mixed_multiscalar_mul(sks.iter().filter(|_| true), dks.iter().filter(|_| true), ps.iter().filter(|_| true)))
                    }
                    (1, _) => {
                        let ps: Vec<$P> = dps.iter().map(|p| p.unwrap()).collect();
                        let h = dks.len() / 2;
                        Some(pre.vartime_mixed_multiscalar_mul(
                            sks.iter(),
                            dks[..h].iter().chain(dks[h..].iter().filter(|_| true)),
                            ps[..h].iter().chain(ps[h..].iter().filter(|_| true)),
                        ))
                    }
                    (_, 0) => {
                        let r = pre.optional_mixed_multiscalar_mul(sks.iter(), dks.clone().into_iter(), dps.clone().into_iter());
                        $o.f("some", r.is_some());
                        r
                    }
                    (_, _) => {
                        let r = pre.optional_mixed_multiscalar_mul(
                            sks.iter().filter(|_| true),
                            dks.clone().into_iter().filter(|_| true),
                            dps.clone().into_iter().filter(|_| true),
                        );
                        $o.f("some", r.is_some());
                        r
                    }
                };
                // second use of the same object: same answer, and the static-only entry point still works
                if dps.iter().all(|p| p.is_some()) {
                    let ps: Vec<$P> = dps.iter().map(|p| p.unwrap()).collect();
                    let again = pre.vartime_mixed_multiscalar_mul(sks.iter(), dks.iter(), ps.iter());
                    if Some(again.compress()) != r.map(|x| x.compress()) {
                        $o.f("second_use_differs", true);
                    }
                    // calls the trait documents as errors (more static scalars than static points, dynamic streams of
                    // different lengths): what happens is not decided by a property, but it must be the same thing in
                    // every configuration (logged, hence compared across builds and dispatcher answers)
                    let mut too_many = sks.clone();
                    while too_many.len() <= statics.len() {
                        too_many.push(Scalar::ONE);
                    }
                    let r1 = crate::env::guarded(|| pre.vartime_mixed_multiscalar_mul(too_many.iter(), dks.iter(), ps.iter()).compress());
                    $o.f("too_many_static_scalars_refused", r1.is_err());
                    if !ps.is_empty() {
                        let r2 = crate::env::guarded(|| pre.vartime_mixed_multiscalar_mul(sks.iter(), dks.iter(), ps[..ps.len() - 1].iter()).compress());
                        $o.f("dynamic_length_mismatch_refused", r2.is_err());
                    } else {
                        $o.f("dynamic_length_mismatch_refused", true);
                    }
                }
                set_dispatch(0);
                // the object stays around for later uses (PUse)
                $self.$preslot[*slot as usize % NSLOT] = Some(pre);
                match r {
                    Some(p) => set!(*dst, p),
                    None => $self.$file[*dst as usize % NREG] = None,
                }
            }
            Step::PUse { dst, slot, entry, ss, ds, dh, d, .. } => {
                if ds.len() != dh.len() || (*entry == 0 && !ds.is_empty()) {
                    return Out::Skip;
                }
                let sks: Vec<Scalar> = ss.iter().map(sc_real).collect();
                let dks: Vec<Scalar> = ds.iter().map(sc_real).collect();
                let mut dps: Vec<Option<$P>> = Vec::new();
                for h in dh {
                    match h {
                        Some(h) => dps.push(Some(need!(*h))),
                        None => {
                            if *entry != 2 {
                                return Out::Skip;
                            }
                            dps.push(None)
                        }
                    }
                }
                let pre = match &$self.$preslot[*slot as usize % NSLOT] {
                    Some(p) => p,
                    None => return Out::Skip,
                };
                if sks.len() > pre.len() {
                    return Out::Skip;
                }
                set_dispatch(*d);
                $o.n("len", pre.len() as u64);
                let r: Option<$P> = match entry {
                    0 => Some(pre.vartime_multiscalar_mul(sks.iter())),
                    1 => {
                        let ps: Vec<$P> = dps.iter().map(|p| p.unwrap()).collect();
                        Some(pre.vartime_mixed_multiscalar_mul(sks.iter(), dks.iter(), ps.iter()))
                    }
                    _ => {
                        let r = pre.optional_mixed_multiscalar_mul(sks.iter(), dks.clone().into_iter(), dps.clone().into_iter());
                        $o.f("some", r.is_some());
                        r
                    }
                };
                set_dispatch(0);
                match r {
                    Some(p) => set!(*dst, p),
                    None => $self.$file[*dst as usize % NREG] = None,
                }
            }
            Step::Eq { a, b, .. } => {
                let (p, q) = (need!(*a), need!(*b));
                use subtle::ConstantTimeEq;
                let e1 = p == q;
                let e2: bool = p.ct_eq(&q).into();
                if e1 != e2 {
                    $o.f("eq_inconsistent", true);
                }
                $o.f("eq", e1);
                $o.f("enc_eq", p.compress() == q.compress());
            }
            Step::Zero { a, .. } => {
                #[allow(unused_mut)]
                let mut p = need!(*a);
                #[cfg(feature = "zz")]
                p.zeroize();
                // builds without the crates' zeroize feature have no such method: the handle is reset through the
                // public identity constructor instead, so plans and logs stay configuration-independent
                #[cfg(not(feature = "zz"))]
                {
                    p = <$P as Identity>::identity();
                }
                set!(*a, p);
            }
            _ => unreachable!(),
        }
    }};
}

trait Kind: Sized {
    const IS_RISTRETTO: bool;
    /// the library's public small-order constants (Edwards only)
    fn torsion_const(i: usize) -> Option<Self>;
    /// raw-coordinate invariant of the (inner) Edwards point
    fn repr_ok(&self) -> bool;
}
impl Kind for EdwardsPoint {
    const IS_RISTRETTO: bool = false;
    fn torsion_const(i: usize) -> Option<Self> {
        Some(constants::EIGHT_TORSION[i])
    }
    fn repr_ok(&self) -> bool {
        coords_affine(self).is_ok()
    }
}
impl Kind for RistrettoPoint {
    const IS_RISTRETTO: bool = true;
    fn torsion_const(_i: usize) -> Option<Self> {
        None
    }
    fn repr_ok(&self) -> bool {
        coords_affine(&verif_hooks::ristretto_inner(self)).is_ok()
    }
}

fn json_array(b: &[u8]) -> String {
    let items: Vec<String> = b.iter().map(|x| x.to_string()).collect();
    format!("[{}]", items.join(","))
}

fn dec_e(b: &simcore::B, via: u8) -> Option<EdwardsPoint> {
    match via {
        1 => CompressedEdwardsY::from_slice(&b.0).ok().and_then(|c| c.decompress()),
        2 if b.0.len() == 32 => Option::from(<EdwardsPoint as GroupEncoding>::from_bytes(&b.a32())),
        3 => CompressedEdwardsY::try_from(&b.0[..]).ok().and_then(|c| c.decompress()),
        // through the serde impls: compact binary and self-describing
        4 if b.0.len() == 32 => bincode::deserialize::<EdwardsPoint>(&b.0).ok(),
        5 if b.0.len() == 32 => serde_json::from_str::<EdwardsPoint>(&json_array(&b.0)).ok(),
        _ if b.0.len() == 32 => CompressedEdwardsY(b.a32()).decompress(),
        _ => None,
    }
}

fn dec_r(b: &simcore::B, via: u8) -> Option<RistrettoPoint> {
    match via {
        1 => CompressedRistretto::from_slice(&b.0).ok().and_then(|c| c.decompress()),
        2 if b.0.len() == 32 => Option::from(<RistrettoPoint as GroupEncoding>::from_bytes(&b.a32())),
        3 => CompressedRistretto::try_from(&b.0[..]).ok().and_then(|c| c.decompress()),
        4 if b.0.len() == 32 => bincode::deserialize::<RistrettoPoint>(&b.0).ok(),
        5 if b.0.len() == 32 => serde_json::from_str::<RistrettoPoint>(&json_array(&b.0)).ok(),
        _ if b.0.len() == 32 => CompressedRistretto(b.a32()).decompress(),
        _ => None,
    }
}

impl RealG {
    pub fn new() -> RealG {
        RealG {
            e: vec![None; NREG],
            r: vec![None; NREG],
            tslot: (0..NSLOT).map(|_| None).collect(),
            pre_e: (0..NSLOT).map(|_| None).collect(),
            pre_r: (0..NSLOT).map(|_| None).collect(),
        }
    }

    pub fn apply(&mut self, st: &Step) -> Out {
        let mut o = Obs::new();
        macro_rules! need_e {
            ($h:expr) => {
                match self.e.get($h as usize).copied().flatten() {
                    Some(p) => p,
                    None => return Out::Skip,
                }
            };
        }
        macro_rules! need_r {
            ($h:expr) => {
                match self.r.get($h as usize).copied().flatten() {
                    Some(p) => p,
                    None => return Out::Skip,
                }
            };
        }
        macro_rules! set_e {
            ($dst:expr, $p:expr) => {{
                let p: EdwardsPoint = $p;
                robs_e(&mut o, &p);
                if ($dst as usize) < self.e.len() {
                    self.e[$dst as usize] = Some(p);
                }
            }};
        }
        macro_rules! set_r {
            ($dst:expr, $p:expr) => {{
                let p: RistrettoPoint = $p;
                robs_r(&mut o, &p);
                if ($dst as usize) < self.r.len() {
                    self.r[$dst as usize] = Some(p);
                }
            }};
        }
        match st {
            // ---- mixed EdwardsPoint / SubgroupPoint arithmetic (group feature)
            Step::Bin { g: 0, dst, a, b, sub, via } if *via >= 4 => {
                use curve25519_dalek::edwards::SubgroupPoint;
                use group::cofactor::CofactorGroup;
                let (p, q) = (need_e!(*a), need_e!(*b));
                let s: SubgroupPoint = match Option::from(CofactorGroup::into_subgroup(q)) {
                    Some(s) => s,
                    None => return Out::Skip,
                };
                let r: EdwardsPoint = match (*sub, *via) {
                    (false, 4) => &p + &s,
                    (false, 5) => p + s,
                    (false, 6) => {
                        let mut t = p;
                        t += &s;
                        t
                    }
                    (false, _) => match Option::<SubgroupPoint>::from(CofactorGroup::into_subgroup(p)) {
                        // both operands in the subgroup type when possible
                        Some(ps) => EdwardsPoint::from(&ps + &s),
                        None => p + &s,
                    },
                    (true, 4) => &p - &s,
                    (true, 5) => p - s,
                    (true, 6) => {
                        let mut t = p;
                        t -= &s;
                        t
                    }
                    (true, _) => match Option::<SubgroupPoint>::from(CofactorGroup::into_subgroup(p)) {
                        Some(ps) => EdwardsPoint::from(&ps - &s),
                        None => &p - s,
                    },
                };
                set_e!(*dst, r);
            }
            // ---- steps shared by both groups
            Step::Dec { g, .. }
            | Step::Const { g, .. }
            | Step::Bin { g, .. }
            | Step::Neg { g, .. }
            | Step::Dbl { g, .. }
            | Step::Sum { g, .. }
            | Step::Sel { g, .. }
            | Step::Mul { g, .. }
            | Step::Dbl2 { g, .. }
            | Step::Msm { g, .. }
            | Step::Pre { g, .. }
            | Step::PUse { g, .. }
            | Step::Eq { g, .. }
            | Step::Zero { g, .. } => {
                if *g == 0 {
                    common_ops!(self, st, o, EdwardsPoint, e, robs_e, VartimeEdwardsPrecomputation, dec_e, constants::ED25519_BASEPOINT_POINT, pre_e)
                } else {
                    common_ops!(self, st, o, RistrettoPoint, r, robs_r, VartimeRistrettoPrecomputation, dec_r, constants::RISTRETTO_BASEPOINT_POINT, pre_r)
                }
            }
            Step::Uni { dst, b, via } => {
                let p = match via {
                    1 => {
                        crate::env::chosen_clear();
                        crate::env::chosen_push(b.a64());
                        let p = RistrettoPoint::from_hash(<crate::env::ChosenDigest as digest::Digest>::new());
                        crate::env::chosen_clear();
                        p
                    }
                    2 => RistrettoPoint::hash_from_bytes::<sha2::Sha512>(&b.0),
                    _ => RistrettoPoint::from_uniform_bytes(&b.a64()),
                };
                set_r!(*dst, p);
            }
            Step::Cof { dst, a } => {
                let p = need_e!(*a);
                set_e!(*dst, p.mul_by_cofactor());
            }
            Step::MulBase { g, dst, s, via, d } => {
                let k = sc_real(s);
                set_dispatch(*d);
                if *g == 0 {
                    let r = match via {
                        #[cfg(feature = "tables")]
                        1 => &k * constants::ED25519_BASEPOINT_TABLE,
                        2 => k * constants::ED25519_BASEPOINT_POINT,
                        _ => EdwardsPoint::mul_base(&k),
                    };
                    set_dispatch(0);
                    set_e!(*dst, r);
                } else {
                    let r = match via {
                        #[cfg(feature = "tables")]
                        1 => &k * constants::RISTRETTO_BASEPOINT_TABLE,
                        2 => k * constants::RISTRETTO_BASEPOINT_POINT,
                        _ => RistrettoPoint::mul_base(&k),
                    };
                    set_dispatch(0);
                    set_r!(*dst, r);
                }
            }
            Step::Clamp { dst, a, k, d } => {
                set_dispatch(*d);
                let r = match a {
                    Some(h) => {
                        let p = need_e!(*h);
                        p.mul_clamped(k.a32())
                    }
                    None => EdwardsPoint::mul_base_clamped(k.a32()),
                };
                set_dispatch(0);
                set_e!(*dst, r);
            }
            #[cfg(feature = "tables")]
            Step::Table { g, dst, a, radix, s, slot } => {
                use curve25519_dalek::edwards::{
                    EdwardsBasepointTableRadix128, EdwardsBasepointTableRadix16, EdwardsBasepointTableRadix256,
                    EdwardsBasepointTableRadix32, EdwardsBasepointTableRadix64,
                };
                use curve25519_dalek::traits::BasepointTable;
                let k = sc_real(s);
                if *g == 0 {
                    let p = need_e!(*a);
                    macro_rules! tbl {
                        ($T:ty, $V:ident) => {{
                            let t = <$T>::create(&p);
                            let bp = t.basepoint();
                            let r1 = t.mul_base(&k);
                            let r2 = &t * &k;
                            let r3 = &k * &t;
                            if r1.compress() != r2.compress() || r1.compress() != r3.compress() {
                                o.f("table_paths_disagree", true);
                            }
                            // the clamped entry point of the table, and a table of another radix converted from this one
                            let cl = t.mul_base_clamped(s.b.a32());
                            let conv = if *radix == 16 {
                                EdwardsBasepointTableRadix64::from(&EdwardsBasepointTableRadix16::create(&p)).mul_base(&k)
                            } else {
                                EdwardsBasepointTableRadix16::create(&t.basepoint()).mul_base(&k)
                            };
                            self.tslot[*slot as usize % NSLOT] = Some(TableObj::$V(Box::new(t)));
                            (bp, r1, cl, conv)
                        }};
                    }
                    let (bp, r, cl, conv) = match radix {
                        32 => tbl!(EdwardsBasepointTableRadix32, E32),
                        64 => tbl!(EdwardsBasepointTableRadix64, E64),
                        128 => tbl!(EdwardsBasepointTableRadix128, E128),
                        256 => tbl!(EdwardsBasepointTableRadix256, E256),
                        _ => tbl!(EdwardsBasepointTableRadix16, E16),
                    };
                    o.b("tbl_base", bp.compress().as_bytes());
                    if coords_affine(&bp).is_err() {
                        o.f("table_basepoint_representation_invalid", true);
                    }
                    o.b("tbl_clamped", cl.compress().as_bytes());
                    o.b("tbl_converted", conv.compress().as_bytes());
                    set_e!(*dst, r);
                } else {
                    use curve25519_dalek::ristretto::RistrettoBasepointTable;
                    let p = need_r!(*a);
                    let t = RistrettoBasepointTable::create(&p);
                    o.b("tbl_base", t.basepoint().compress().as_bytes());
                    if coords_affine(&verif_hooks::ristretto_inner(&t.basepoint())).is_err() {
                        o.f("table_basepoint_representation_invalid", true);
                    }
                    let r1 = &t * &k;
                    let r2 = &k * &t;
                    if r1.compress() != r2.compress() {
                        o.f("table_paths_disagree", true);
                    }
                    self.tslot[*slot as usize % NSLOT] = Some(TableObj::R(Box::new(t)));
                    set_r!(*dst, r1);
                }
            }
            Step::TUse { g, dst, slot, s } => {
                #[allow(unused_imports)]
                use curve25519_dalek::traits::BasepointTable;
                let k = sc_real(s);
                match (&self.tslot[*slot as usize % NSLOT], *g) {
                    #[cfg(feature = "tables")]
                    (Some(TableObj::E16(t)), 0) => {
                        o.b("tbl_base", t.basepoint().compress().as_bytes());
                        set_e!(*dst, t.mul_base(&k));
                    }
                    #[cfg(feature = "tables")]
                    (Some(TableObj::E32(t)), 0) => {
                        o.b("tbl_base", t.basepoint().compress().as_bytes());
                        set_e!(*dst, t.mul_base(&k));
                    }
                    #[cfg(feature = "tables")]
                    (Some(TableObj::E64(t)), 0) => {
                        o.b("tbl_base", t.basepoint().compress().as_bytes());
                        set_e!(*dst, t.mul_base(&k));
                    }
                    #[cfg(feature = "tables")]
                    (Some(TableObj::E128(t)), 0) => {
                        o.b("tbl_base", t.basepoint().compress().as_bytes());
                        set_e!(*dst, t.mul_base(&k));
                    }
                    #[cfg(feature = "tables")]
                    (Some(TableObj::E256(t)), 0) => {
                        o.b("tbl_base", t.basepoint().compress().as_bytes());
                        set_e!(*dst, t.mul_base(&k));
                    }
                    #[cfg(feature = "tables")]
                    (Some(TableObj::R(t)), 1) => {
                        o.b("tbl_base", t.basepoint().compress().as_bytes());
                        set_r!(*dst, &**t * &k);
                    }
                    (Some(TableObj::PlainE(p)), 0) => {
                        o.b("tbl_base", p.compress().as_bytes());
                        set_e!(*dst, p * &k);
                    }
                    (Some(TableObj::PlainR(p)), 1) => {
                        o.b("tbl_base", p.compress().as_bytes());
                        set_r!(*dst, p * &k);
                    }
                    _ => return Out::Skip,
                }
            }
            #[cfg(not(feature = "tables"))]
            Step::Table { g, dst, a, radix: _, s, slot } => {
                // no table types in this build: the same observations through the table-less entry points
                let k = sc_real(s);
                if *g == 0 {
                    let p = need_e!(*a);
                    o.b("tbl_base", p.compress().as_bytes());
                    o.b("tbl_clamped", p.mul_clamped(s.b.a32()).compress().as_bytes());
                    o.b("tbl_converted", (&p * &k).compress().as_bytes());
                    self.tslot[*slot as usize % NSLOT] = Some(TableObj::PlainE(p));
                    set_e!(*dst, &k * &p);
                } else {
                    let p = need_r!(*a);
                    o.b("tbl_base", p.compress().as_bytes());
                    self.tslot[*slot as usize % NSLOT] = Some(TableObj::PlainR(p));
                    set_r!(*dst, &k * &p);
                }
            }
            Step::Cmp { g, a } => {
                if *g == 0 {
                    let p = need_e!(*a);
                    robs_e(&mut o, &p);
                    // GroupEncoding must agree with compress
                    let ok = <EdwardsPoint as GroupEncoding>::to_bytes(&p) == p.compress().to_bytes();
                    let id1 = IsIdentity::is_identity(&p);
                    let id2 = bool::from(Group::is_identity(&p));
                    o.f("deep_ok", ok && id1 == id2);
                    o.f("is_identity", id1);
                } else {
                    let p = need_r!(*a);
                    robs_r(&mut o, &p);
                    // type invariant: representative lies in 2E  <=>  [4l]P = 0
                    let inner = verif_hooks::ristretto_inner(&p);
                    let ok = match coords_affine(&inner) {
                        Ok(a) => a.mul_u256(&sc::l()).dbl().dbl().is_identity(),
                        Err(_) => false,
                    };
                    let ok2 = <RistrettoPoint as GroupEncoding>::to_bytes(&p) == p.compress().to_bytes();
                    let id1 = IsIdentity::is_identity(&p);
                    let id2 = bool::from(Group::is_identity(&p));
                    o.f("deep_ok", ok && ok2 && id1 == id2);
                    o.f("is_identity", id1);
                }
            }
            Step::Pred { a } => {
                let p = need_e!(*a);
                o.f("is_identity", IsIdentity::is_identity(&p));
                o.f("is_small_order", p.is_small_order());
                o.f("is_torsion_free", EdwardsPoint::is_torsion_free(&p));
            }
            Step::SArith { a, b } => {
                use group::ff::{Field, PrimeField};
                let x = Scalar::from_bytes_mod_order(a.b.a32());
                let y = Scalar::from_bytes_mod_order(b.b.a32());
                o.b("add", (x + y).as_bytes());
                o.b("sub", (x - y).as_bytes());
                o.b("mul", (x * y).as_bytes());
                o.b("neg", (-x).as_bytes());
                o.b("square", Field::square(&x).as_bytes());
                o.b("double", Field::double(&x).as_bytes());
                let fi: Option<Scalar> = Field::invert(&x).into();
                o.f("field_invert_some", fi.is_some());
                o.b("field_invert", fi.unwrap_or(Scalar::ZERO).as_bytes());
                // the inherent inversion is only defined for non-zero scalars
                o.b("invert", if x == Scalar::ZERO { Scalar::ZERO } else { x.invert() }.as_bytes());
                let (c, r) = <Scalar as Field>::sqrt_ratio(&x, &y);
                o.f("sqrt_ratio_is_square", bool::from(c));
                o.b("sqrt_ratio", r.as_bytes());
                let sq: Option<Scalar> = Field::sqrt(&x).into();
                o.f("sqrt_some", sq.is_some());
                o.b("sqrt", sq.unwrap_or(Scalar::ZERO).as_bytes());
                let mut v: Vec<Scalar> = [x, y, x + y, x * y, x - y].into_iter().filter(|s| *s != Scalar::ZERO).collect();
                let prod = Scalar::batch_invert(&mut v);
                o.b("batch_invert_product", prod.as_bytes());
                let mut cat = Vec::new();
                for s in &v {
                    cat.extend_from_slice(s.as_bytes());
                }
                o.b("batch_inverted", &cat);
                o.f("from_repr_some", bool::from(Scalar::from_repr(a.b.a32()).is_some()));
                o.f("from_repr_vartime_some", Scalar::from_repr_vartime(a.b.a32()).is_some());
                o.f("is_odd", bool::from(PrimeField::is_odd(&x)));
                let s1: Scalar = [x, y, x].iter().sum();
                let p1: Scalar = [x, y, x].iter().product();
                o.b("sum", s1.as_bytes());
                o.b("product", p1.as_bytes());
                let mut w = [0u8; 64];
                w[..32].copy_from_slice(&a.b.a32());
                w[32..].copy_from_slice(&b.b.a32());
                o.b("wide", Scalar::from_bytes_mod_order_wide(&w).as_bytes());
            }
            Step::ToMont { a } => {
                let p = need_e!(*a);
                o.b("u", p.to_montgomery().as_bytes());
            }
            Step::Batch { hs } => {
                let mut v = Vec::new();
                for h in hs {
                    v.push(need_r!(*h));
                }
                let base = RistrettoPoint::double_and_compress_batch(v.iter());
                // the same points delivered through iterators of other kinds (no exactness is required of them)
                let k = v.len() / 2;
                let others = [
                    RistrettoPoint::double_and_compress_batch(v.iter().filter(|_| true)),
                    RistrettoPoint::double_and_compress_batch(v[..k].iter().chain(v[k..].iter().filter(|_| true))),
                    RistrettoPoint::double_and_compress_batch(crate::env::Loose::new(v.iter().collect::<Vec<_>>())),
                    RistrettoPoint::double_and_compress_batch(Plain::new(v.iter().collect::<Vec<_>>())),
                    RistrettoPoint::double_and_compress_batch(v.iter().flat_map(|p| std::iter::once(p))),
                ];
                if others.iter().any(|x| *x != base) {
                    o.f("batch_iterator_kinds_disagree", true);
                }
                for c in base {
                    o.b("enc2", c.as_bytes());
                }
            }
            Step::Rerep { a, j } => {
                let p = need_r!(*a);
                // E[4] point from the model's own derivation, through the public decoder
                let t4 = match CompressedEdwardsY(ed::torsion()[(2 * (*j as usize)) % 8].encode()).decompress() {
                    Some(t) => t,
                    None => return Out::Skip,
                };
                let q = verif_hooks::ristretto_from_edwards(verif_hooks::ristretto_inner(&p) + t4);
                use subtle::ConstantTimeEq;
                if !bool::from(q.ct_eq(&p)) || q != p {
                    o.f("coset_representatives_unequal", true);
                }
                set_r!(*a, q);
            }
            Step::FromEd { dst, a } => {
                let p = need_e!(*a);
                set_r!(*dst, verif_hooks::ristretto_from_edwards(p + p));
            }
            Step::Rand { g, dst, rng } => {
                if model_random(*g, &rng.b.0).is_none() {
                    return Out::Skip;
                }
                let mut r = crate::env::SimRng::new(&rng.b.0);
                let mut r2 = crate::env::SimRng::new(&rng.b.0);
                if *g == 0 {
                    let p = <EdwardsPoint as Group>::random(&mut r);
                    let p2 = <EdwardsPoint as Group>::random(&mut r2);
                    set_e!(*dst, p);
                    o.f("deterministic", p.compress() == p2.compress() && !IsIdentity::is_identity(&p));
                } else {
                    let p = RistrettoPoint::random(&mut r);
                    let p2 = RistrettoPoint::random(&mut r2);
                    set_r!(*dst, p);
                    o.f("deterministic", p.compress() == p2.compress());
                }
            }
            Step::Cofac { dst, a, via } => {
                use group::cofactor::CofactorGroup;
                let p = need_e!(*a);
                match via {
                    0 => set_e!(*dst, EdwardsPoint::from(CofactorGroup::clear_cofactor(&p))),
                    1 => {
                        let s: Option<curve25519_dalek::edwards::SubgroupPoint> = CofactorGroup::into_subgroup(p).into();
                        o.f("some", s.is_some());
                        match s {
                            Some(s) => set_e!(*dst, EdwardsPoint::from(s)),
                            None => self.e[*dst as usize % NREG] = None,
                        }
                    }
                    _ => {
                        o.f("is_torsion_free", bool::from(CofactorGroup::is_torsion_free(&p)));
                        o.f("is_small_order", bool::from(CofactorGroup::is_small_order(&p)));
                        o.f("is_identity", bool::from(Group::is_identity(&p)));
                    }
                }
            }
            _ => return Out::Skip,
        }
        Out::Obs(o)
    }
}
