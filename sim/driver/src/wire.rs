//! `wire` family: X25519 peers, Ed25519 signers, verifiers in every mode, a batch verifier and the
//! total decoders, each existing twice: as the real library objects and as the reference model.

#![allow(non_snake_case)]

use crate::env::{chosen_clear, chosen_push, rng_prefix, set_dispatch, sha512_chunked, ChosenDigest, ChosenH, Obs, Out, SimRng};
use crate::group::{sc_int, sc_real};
use curve25519_dalek::edwards::EdwardsPoint;
use curve25519_dalek::montgomery::MontgomeryPoint;
use curve25519_dalek::scalar::Scalar;
use ed25519_dalek::hazmat::{self, ExpandedSecretKey};
use ed25519_dalek::{Signature, Signer, SigningKey, Verifier, VerifyingKey};
use refmodel::ed::Pt;
use refmodel::eddsa::{self, RealSha512, VerifyMode};
use refmodel::fp::Fp;
use refmodel::{arr32, sc, x25519 as mx};
use sha2::Sha512;
use signature::{DigestSigner, DigestVerifier};
use simcore::{Step, B};
use std::collections::{BTreeMap, VecDeque};
use x25519_dalek::{EphemeralSecret, PublicKey, ReusableSecret, SharedSecret, StaticSecret};

const LEGACY: bool = cfg!(feature = "legacy");
const NPARTY: usize = 8;

// =================================================================== model

#[derive(Clone)]
struct MX {
    fl: u8,
    /// the 32 secret bytes as the X25519 function receives them (before clamping)
    k: [u8; 32],
    used: bool,
}

#[derive(Clone)]
struct MSigner {
    /// Some(seed) for SigningKey-backed signers
    seed: Option<[u8; 32]>,
    a: refmodel::Sc,
    prefix: [u8; 32],
    pk: [u8; 32],
    lower: [u8; 32],
}

#[derive(Clone)]
struct MEntry {
    m: Vec<u8>,
    sig: [u8; 64],
    key: [u8; 32],
}

/// per-entry facts the batch model needs, memoised (a queue is usually flushed several times)
#[derive(Clone, Copy)]
struct EntryFacts {
    s_canonical: bool,
    s_rejected: bool,
    r_decodes: bool,
    in_domain_points: bool,
    valid: bool,
}

pub struct ModelW {
    facts: BTreeMap<Vec<u8>, EntryFacts>,
    x: Vec<Option<MX>>,
    shared: BTreeMap<(u8, u8), [u8; 32]>,
    s: Vec<Option<MSigner>>,
    q: Vec<Vec<MEntry>>,
}

fn m_signer_from_seed(seed: &[u8; 32]) -> MSigner {
    let h = eddsa::sha512(&[seed]);
    let lower = arr32(&h[..32]);
    let (a_cl, prefix) = eddsa::expand(seed);
    MSigner { seed: Some(*seed), a: refmodel::Sc::from_bytes_mod_order(&a_cl), prefix, pk: eddsa::public_from_scalar_bytes(&a_cl), lower }
}

fn m_signer_from_expanded(b: &[u8; 64]) -> MSigner {
    let lower = arr32(&b[..32]);
    let a_cl = sc::clamp(&lower);
    let a = refmodel::Sc::from_bytes_mod_order(&a_cl);
    // the library derives the public key from the *reduced* scalar; same point since B has order l
    MSigner { seed: None, a, prefix: arr32(&b[32..]), pk: eddsa::public_from_scalar_bytes(&a_cl), lower }
}

/// model verdict of one triple in a given mode
fn m_verify(mode: u8, key: &[u8], m: &[u8], sig: &[u8], ctx: Option<&[u8]>, chosen: Option<&[u8; 64]>) -> (bool, bool, Option<bool>) {
    let key_ok = key.len() == 32 && Pt::decode(&arr32(key)).is_some();
    let sig_ok = sig.len() == 64;
    if !key_ok || !sig_ok {
        return (key_ok, sig_ok, None);
    }
    let key = arr32(key);
    let sig = refmodel::arr64(sig);
    let strict = matches!(mode, 2 | 4 | 13);
    let vm = VerifyMode { strict, legacy: LEGACY };
    let prehashed = matches!(mode, 3 | 4 | 6 | 8 | 10 | 11 | 12 | 13 | 14 | 15);
    let verdict = if prehashed {
        // modes 12..15: the alternative message digest in the prehash position
        let ph = if mode >= 12 { eddsa::sha512(&[m, &[crate::env::ALT_SUFFIX]]) } else { eddsa::sha512(&[m]) };
        let c = ctx.unwrap_or(b"");
        if c.len() > 255 {
            // with_context refuses; the plain prehashed verifiers are out of their documented domain
            return (key_ok, sig_ok, if mode == 8 || mode == 15 { Some(false) } else { None });
        }
        if mode == 11 {
            // the context digest is the simulator's stub: the challenge is what it was told to output
            let mut h = ChosenH(VecDeque::new());
            if let Some(c) = chosen {
                h.0.push_back(*c);
            }
            return (key_ok, sig_ok, Some(eddsa::verify(&mut h, &key, &ph, &sig, Some(c), vm).ok()));
        }
        eddsa::verify(&mut RealSha512, &key, &ph, &sig, Some(c), vm)
    } else if mode == 7 {
        let mut h = ChosenH(VecDeque::new());
        if let Some(c) = chosen {
            h.0.push_back(*c);
        }
        eddsa::verify(&mut h, &key, m, &sig, None, vm)
    } else {
        eddsa::verify(&mut RealSha512, &key, m, &sig, None, vm)
    };
    (key_ok, sig_ok, Some(verdict.ok()))
}

impl ModelW {
    fn entry_facts(&mut self, e: &MEntry) -> EntryFacts {
        let mut k = Vec::with_capacity(96 + e.m.len());
        k.extend_from_slice(&e.key);
        k.extend_from_slice(&e.sig);
        k.extend_from_slice(&e.m);
        if let Some(f) = self.facts.get(&k) {
            return *f;
        }
        let a = Pt::decode(&e.key);
        let rb = arr32(&e.sig[..32]);
        let sb = arr32(&e.sig[32..]);
        let r = Pt::decode(&rb);
        let s_canonical = refmodel::Sc::is_canonical_bytes(&sb);
        let f = EntryFacts {
            s_canonical,
            s_rejected: if LEGACY { sb[31] & 224 != 0 } else { !s_canonical },
            r_decodes: r.is_some(),
            in_domain_points: a.map(|a| a.encode() == e.key && a.is_torsion_free()).unwrap_or(false)
                && r.map(|r| r.encode() == rb && r.is_torsion_free()).unwrap_or(false),
            valid: eddsa::verify(&mut RealSha512, &e.key, &e.m, &e.sig, None, VerifyMode { strict: false, legacy: false }).ok(),
        };
        self.facts.insert(k, f);
        f
    }

    pub fn new() -> ModelW {
        ModelW { facts: BTreeMap::new(), x: vec![None; NPARTY], shared: BTreeMap::new(), s: vec![None; NPARTY], q: vec![Vec::new(); NPARTY] }
    }

    pub fn apply(&mut self, st: &Step) -> Out {
        let mut o = Obs::new();
        match st {
            Step::XKey { p, fl, rng } => {
                let k = arr32(&rng_prefix(&rng.b.0, 32));
                let (kx, pubk) = if *fl == 6 {
                    let sg = m_signer_from_seed(&k);
                    // X25519 secret = unclamped lower half of SHA-512(seed); public = Montgomery form of A
                    let pk_pt = Pt::decode(&sg.pk).unwrap();
                    o.b("ed_pub", &sg.pk);
                    (sg.lower, pk_pt.to_montgomery_u().to_bytes())
                } else {
                    (k, mx::x25519(&k, &mx::basepoint_u()))
                };
                o.b("pub", &pubk);
                if matches!(fl, 2 | 3) {
                    o.b("secret_bytes", &k);
                }
                self.x[*p as usize % NPARTY] = Some(MX { fl: *fl, k: kx, used: false });
                self.shared.retain(|(a, b), _| *a != *p && *b != *p);
            }
            Step::XDh { p, pk, peer } => {
                let pi = *p as usize % NPARTY;
                let party = match &mut self.x[pi] {
                    Some(x) => x,
                    None => return Out::Skip,
                };
                if party.fl == 0 && party.used {
                    return Out::Skip; // an ephemeral secret is consumed by its first use
                }
                party.used = true;
                let sh = mx::x25519(&party.k, &pk.a32());
                o.b("shared", &sh);
                o.f("contributory", sh != [0u8; 32]);
                if let Some(q) = peer {
                    self.shared.insert((*p, *q), sh);
                    if let Some(other) = self.shared.get(&(*q, *p)) {
                        o.f("agree", *other == sh);
                    }
                }
            }
            Step::XRaw { k, u } => {
                o.b("out", &mx::x25519(&k.a32(), &u.a32()));
            }
            Step::MMul { u, s } => {
                o.b("out", &mx::mul_le(&u.a32(), &sc_int(s)));
            }
            Step::MBase { s } => {
                o.b("out", &mx::mul_le(&mx::basepoint_u(), &sc_int(s)));
                o.b("clamped", &mx::x25519(&s.b.a32(), &mx::basepoint_u()));
            }
            Step::MBits { u, bits, n } => {
                let all = refmodel::big::bits_msb_first(&bits.0.iter().rev().cloned().collect::<Vec<u8>>());
                // bits.0 is read byte by byte, most significant bit first
                let n = (*n as usize).min(all.len());
                let r = mx::ladder_bits(&Fp::from_bytes(&u.a32()), &all[..n]);
                o.b("out", &r.to_bytes());
            }
            Step::MToEd { u, sign } => {
                let p = mx::to_edwards(&u.a32(), *sign & 1);
                o.f("some", p.is_some());
                if let Some(p) = p {
                    o.b("enc", &p.encode());
                    o.f("repr_ok", true);
                }
            }
            Step::MEq { a, b } => {
                let eq = Fp::from_bytes(&a.a32()) == Fp::from_bytes(&b.a32());
                o.f("eq", eq);
                // equal values must hash equally; unequal ones are not required to differ
                if eq {
                    o.f("hash_eq", true);
                } else {
                    o.any("hash_eq");
                }
                o.f("a_identity", Fp::from_bytes(&a.a32()).is_zero());
            }
            Step::SKey { s, how, b, rng } => {
                let si = *s as usize % NPARTY;
                let signer = match how {
                    0 => {
                        let stream = rng.as_ref().map(|r| r.b.0.clone()).unwrap_or_default();
                        Some(m_signer_from_seed(&arr32(&rng_prefix(&stream, 32))))
                    }
                    1 => Some(m_signer_from_seed(&b.a32())),
                    2 | 6 => {
                        let sg = m_signer_from_seed(&b.a32());
                        if b.0.len() == 64 && b.0[32..] == sg.pk[..] {
                            Some(sg)
                        } else {
                            None
                        }
                    }
                    3 => {
                        if b.0.len() == 32 {
                            Some(m_signer_from_seed(&b.a32()))
                        } else {
                            None
                        }
                    }
                    4 => Some(m_signer_from_expanded(&b.a64())),
                    _ => {
                        if b.0.len() == 64 {
                            Some(m_signer_from_expanded(&b.a64()))
                        } else {
                            None
                        }
                    }
                };
                o.f("ok", signer.is_some());
                if let Some(sg) = &signer {
                    o.b("pub", &sg.pk);
                    if let Some(seed) = &sg.seed {
                        o.b("seed", seed);
                        let mut kp = seed.to_vec();
                        kp.extend_from_slice(&sg.pk);
                        o.b("keypair", &kp);
                    } else {
                        o.b("scalar", &sg.a.to_bytes());
                        o.b("prefix", &sg.prefix);
                    }
                }
                self.s[si] = signer;
            }
            Step::Sign { s, m, mode, ctx, ch: _ } => {
                let sg = match &self.s[*s as usize % NPARTY] {
                    Some(x) => x.clone(),
                    None => return Out::Skip,
                };
                let mode = eff_sign_mode(*mode, sg.seed.is_some());
                let c = ctx.as_ref().map(|c| c.0.as_slice());
                let sig = match mode {
                    6 => {
                        // both hashes of the signing algorithm come from the stub: nonce hash, then challenge hash
                        let mut h = ChosenH(VecDeque::new());
                        if let Some(c) = c {
                            if c.len() >= 128 {
                                h.0.push_back(refmodel::arr64(&c[..64]));
                                h.0.push_back(refmodel::arr64(&c[64..128]));
                            }
                        }
                        Some(eddsa::sign_expanded(&mut h, &sg.a, &sg.prefix, &sg.pk, &m.0, None))
                    }
                    0 | 1 | 4 => Some(eddsa::sign_expanded(&mut RealSha512, &sg.a, &sg.prefix, &sg.pk, &m.0, None)),
                    _ => {
                        let cc = c.unwrap_or(b"");
                        if cc.len() > 255 {
                            None
                        } else {
                            let ph = if mode >= 12 { eddsa::sha512(&[&m.0, &[crate::env::ALT_SUFFIX]]) } else { eddsa::sha512(&[&m.0]) };
                            Some(eddsa::sign_expanded(&mut RealSha512, &sg.a, &sg.prefix, &sg.pk, &ph, Some(cc)))
                        }
                    }
                };
                o.f("ok", sig.is_some());
                if let Some(sig) = sig {
                    o.b("sig", &sig);
                    if mode == 6 {
                        return Out::Obs(o);
                    }
                    // the signer's own verification wrappers accept what it just produced
                    o.f("self_verify", true);
                    if sg.seed.is_some() {
                        // ... and treat a crafted signature with R = identity like the verifying key does:
                        // accepted by verify, rejected by verify_strict (R has small order)
                        o.f("wrapper_identity_R_lenient", true);
                        o.f("wrapper_identity_R_strict", false);
                    }
                }
            }
            Step::Ver { mode, key, m, sig, ctx, ch: _, chosen, d: _, ksrc, hon } => {
                let ch = chosen.as_ref().map(|c| c.a64());
                // the key bytes the verifier ends up holding
                let kb: Vec<u8> = match ksrc {
                    1 => Pt::IDENTITY.encode().to_vec(),
                    2 if key.0.len() == 32 => match Pt::decode(&key.a32()) {
                        Some(p) => p.encode().to_vec(),
                        None => key.0.clone(),
                    },
                    _ => key.0.clone(),
                };
                let (key_ok, sig_ok, verdict) = m_verify(*mode, &kb, &m.0, &sig.0, ctx.as_ref().map(|c| c.0.as_slice()), ch.as_ref());
                o.f("key_ok", key_ok);
                o.f("sig_ok", sig_ok);
                if let Some(v) = verdict {
                    o.f("accept", v);
                } else if key_ok && sig_ok {
                    // context longer than 255 bytes handed to a plain prehashed verifier: outside the documented domain,
                    // so the verdict is not decided - but in a release build the call must still return
                    if cfg!(debug_assertions) {
                        return Out::Skip;
                    }
                    if *hon {
                        // an honest signature can only have been made under a context of at most 255 bytes, so this longer
                        // one is "another context": it must be rejected (C08), whatever the verifier does with the excess
                        o.f("accept", false);
                    } else {
                        o.any("accept");
                    }
                }
            }
            Step::BQ { q, m, sig, key } => {
                let key_ok = key.0.len() == 32 && Pt::decode(&key.a32()).is_some();
                let sig_ok = sig.0.len() == 64;
                o.f("key_ok", key_ok);
                o.f("sig_ok", sig_ok);
                if key_ok && sig_ok {
                    self.q[*q as usize % NPARTY].push(MEntry { m: m.0.clone(), sig: sig.a64(), key: key.a32() });
                }
            }
            Step::BFlush { q, var, arg, d: _, clear } => {
                let qi = *q as usize % NPARTY;
                let entries = self.q[qi].clone();
                if *var == 4 {
                    let (nm, ns, nk) = lens(arg, entries.len());
                    if nm == ns && ns == nk {
                        return Out::Skip; // nothing mismatched: not executed (state untouched)
                    }
                }
                let adaptive_ok = *var == 5 && entries.len() >= 2 && {
                    // inside the property's domain (canonical, torsion-free key and R) and individually valid
                    let mut ok = true;
                    for e in &entries {
                        let f = self.entry_facts(e);
                        if !(f.s_canonical && f.in_domain_points && f.valid) {
                            ok = false;
                            break;
                        }
                    }
                    ok
                };
                if *var == 5 && !(adaptive_ok && *var == 5) {
                    return Out::Skip; // the attack needs an accepted batch of at least two entries (state untouched)
                }
                if *clear {
                    self.q[qi].clear();
                }
                o.n("n", entries.len() as u64);
                if *var == 4 {
                    o.f("ok", false);
                    o.f("consistent", true);
                    return Out::Obs(o);
                }
                if *var == 5 {
                    // adaptive adversary: sees the coefficients of an accepted batch, then shifts two S values so that
                    // their errors cancel under those coefficients. Both entries are then individually invalid.
                    o.f("first_call_ok", true);
                    o.f("ok_after_adaptive_shift", false);
                    return Out::Obs(o);
                }
                // classification
                let mut in_domain = true;
                let mut must_err = false;
                let mut all_ok = true;
                for e in &entries {
                    let f = self.entry_facts(e);
                    if !f.r_decodes || f.s_rejected {
                        must_err = true;
                    }
                    if !f.s_canonical || !f.in_domain_points {
                        in_domain = false;
                    }
                    if !f.valid {
                        all_ok = false;
                    }
                }
                if must_err {
                    o.f("ok", false);
                    o.f("consistent", true);
                } else if in_domain {
                    o.f("ok", all_ok);
                    o.f("consistent", true);
                } else {
                    // outside the property's domain only repetition is promised to be deterministic
                    o.any("ok");
                    if *var == 1 || *var == 0 {
                        o.f("consistent", true);
                    } else {
                        o.any("consistent");
                    }
                }
            }
            Step::SConv { s } => {
                let sg = match &self.s[*s as usize % NPARTY] {
                    Some(x) if x.seed.is_some() => x.clone(),
                    _ => return Out::Skip,
                };
                o.b("scalar_bytes", &sg.lower);
                o.b("scalar", &sg.a.to_bytes());
                let a = Pt::decode(&sg.pk).unwrap();
                o.b("mont", &a.to_montgomery_u().to_bytes());
                o.b("edw", &a.encode());
                // X25519 with the converted secret against the converted public key of the base point
                o.b("x_pub", &mx::x25519(&sg.lower, &mx::basepoint_u()));
            }
            Step::Decode { ty, b } => return m_decode(*ty, b),
            _ => return Out::Skip,
        }
        Out::Obs(o)
    }
}

fn lens(arg: &[u16], n: usize) -> (usize, usize, usize) {
    let g = |i: usize| arg.get(i).map(|v| (*v as usize).min(n)).unwrap_or(n);
    (g(0), g(1), g(2))
}

/// SigningKey-backed signers cannot use the hazmat-only modes and vice versa: map to the nearest
fn eff_sign_mode(mode: u8, has_seed: bool) -> u8 {
    if mode == 6 {
        return 6; // hazmat raw_sign with the stub digest, any signer
    }
    if mode >= 12 {
        // Ed25519ph over the alternative message digest: sign_prehashed / context signer / hazmat
        return if has_seed { 12 + (mode - 12) % 3 } else { 14 };
    }
    if has_seed {
        mode % 6
    } else {
        match mode % 6 {
            0 | 1 | 4 => 4,
            _ => 5,
        }
    }
}

fn m_decode(ty: u8, b: &B) -> Out {
    let mut o = Obs::new();
    match ty {
        0 => {
            let ok = refmodel::Sc::is_canonical_bytes(&b.a32());
            o.f("some", ok);
            if ok {
                o.b("val", &b.a32());
            }
        }
        1 => {
            o.b("val", &refmodel::Sc::from_bytes_mod_order(&b.a32()).to_bytes());
        }
        2 => {
            o.b("val", &refmodel::Sc::from_wide(&b.a64()).to_bytes());
        }
        3 => {
            o.b("val", &refmodel::Sc::from_wide(&eddsa::sha512(&[&b.0])).to_bytes());
        }
        4 => {
            o.b("val", &refmodel::Sc::from_wide(&b.a64()).to_bytes());
        }
        5 => {
            let ok = b.0.len() == 32 && Pt::decode(&b.a32()).is_some();
            o.f("ok", ok);
            if ok {
                o.b("bytes", &b.0);
                o.f("weak", Pt::decode(&b.a32()).unwrap().is_small_order());
            }
        }
        6 => {
            let ok = b.0.len() == 32;
            o.f("ok", ok);
            if ok {
                o.b("pub", &eddsa::public_key(&b.a32()));
            }
        }
        7 | 19 => {
            let ok = b.0.len() == 64;
            o.f("ok", ok);
            if ok {
                o.b("bytes", &b.0);
            }
        }
        8 => {
            o.f("ok", b.0.len() == 64);
        }
        10 => {
            // value not decided by C15: must terminate and land in the prime-order subgroup
            o.f("valid", true);
            o.any("enc");
        }
        15 => {
            let ok = b.0.len() >= 64 && eddsa::public_key(&b.a32())[..] == b.0[32..64];
            o.f("ok", ok);
        }
        _ => return Out::Skip,
    }
    Out::Obs(o)
}

// =================================================================== real

enum RX {
    Eph(Option<EphemeralSecret>, [u8; 32]),
    Reu(ReusableSecret),
    Sta(StaticSecret),
    Raw([u8; 32]),
    Mont([u8; 32]),
    Ed(SigningKey),
}

enum RSigner {
    Key(SigningKey),
    Esk(ExpandedSecretKey, VerifyingKey),
}

pub struct RealW {
    x: Vec<Option<RX>>,
    shared: BTreeMap<(u8, u8), [u8; 32]>,
    s: Vec<Option<RSigner>>,
    q: Vec<Vec<(Vec<u8>, Signature, VerifyingKey)>>,
}

fn hash_of<T: std::hash::Hash>(v: &T) -> Vec<u8> {
    /// a recording hasher: captures exactly the bytes fed to it
    struct Rec(Vec<u8>);
    impl std::hash::Hasher for Rec {
        fn finish(&self) -> u64 {
            0
        }
        fn write(&mut self, bytes: &[u8]) {
            self.0.extend_from_slice(bytes);
        }
    }
    let mut r = Rec(Vec::new());
    v.hash(&mut r);
    r.0
}

fn shared_obs(o: &mut Obs, sh: &SharedSecret) -> [u8; 32] {
    o.b("shared", sh.as_bytes());
    o.f("contributory", sh.was_contributory());
    sh.to_bytes()
}

impl RealW {
    pub fn new() -> RealW {
        RealW {
            x: (0..NPARTY).map(|_| None).collect(),
            shared: BTreeMap::new(),
            s: (0..NPARTY).map(|_| None).collect(),
            q: (0..NPARTY).map(|_| Vec::new()).collect(),
        }
    }

    pub fn apply(&mut self, st: &Step) -> Out {
        let mut o = Obs::new();
        match st {
            Step::XKey { p, fl, rng } => {
                let mut r = SimRng::new(&rng.b.0);
                let k32 = arr32(&rng_prefix(&rng.b.0, 32));
                let (party, pubk) = match fl {
                    0 => {
                        let s = EphemeralSecret::random_from_rng(&mut r);
                        let pk = PublicKey::from(&s);
                        (RX::Eph(Some(s), k32), pk.to_bytes())
                    }
                    1 => {
                        let s = ReusableSecret::random_from_rng(&mut r);
                        let pk = PublicKey::from(&s);
                        (RX::Reu(s), pk.to_bytes())
                    }
                    2 => {
                        let s = StaticSecret::random_from_rng(&mut r);
                        let pk = PublicKey::from(&s);
                        o.b("pub", pk.as_bytes());
                        o.b("secret_bytes", &s.to_bytes());
                        self.x[*p as usize % NPARTY] = Some(RX::Sta(s));
                        self.shared.retain(|(a, b), _| *a != *p && *b != *p);
                        return Out::Obs(o);
                    }
                    3 => {
                        let s = StaticSecret::from(k32);
                        let pk = PublicKey::from(&s);
                        o.b("pub", pk.as_bytes());
                        o.b("secret_bytes", s.as_bytes());
                        self.x[*p as usize % NPARTY] = Some(RX::Sta(s));
                        self.shared.retain(|(a, b), _| *a != *p && *b != *p);
                        return Out::Obs(o);
                    }
                    4 => (RX::Raw(k32), x25519_dalek::x25519(k32, x25519_dalek::X25519_BASEPOINT_BYTES)),
                    5 => (RX::Mont(k32), MontgomeryPoint::mul_base_clamped(k32).to_bytes()),
                    _ => {
                        let sk = SigningKey::from_bytes(&k32);
                        let vk = sk.verifying_key();
                        o.b("ed_pub", vk.as_bytes());
                        let pk = vk.to_montgomery().to_bytes();
                        (RX::Ed(sk), pk)
                    }
                };
                o.b("pub", &pubk);
                self.x[*p as usize % NPARTY] = Some(party);
                self.shared.retain(|(a, b), _| *a != *p && *b != *p);
            }
            Step::XDh { p, pk, peer } => {
                let pi = *p as usize % NPARTY;
                let their = PublicKey::from(pk.a32());
                let sh: [u8; 32] = match &mut self.x[pi] {
                    None => return Out::Skip,
                    Some(RX::Eph(s, _)) => match s.take() {
                        None => return Out::Skip,
                        Some(s) => shared_obs(&mut o, &s.diffie_hellman(&their)),
                    },
                    Some(RX::Reu(s)) => shared_obs(&mut o, &s.diffie_hellman(&their)),
                    Some(RX::Sta(s)) => shared_obs(&mut o, &s.diffie_hellman(&their)),
                    Some(RX::Raw(k)) => {
                        let out = x25519_dalek::x25519(*k, pk.a32());
                        o.b("shared", &out);
                        o.f("contributory", out != [0u8; 32]);
                        out
                    }
                    Some(RX::Mont(k)) => {
                        let out = MontgomeryPoint(pk.a32()).mul_clamped(*k).to_bytes();
                        o.b("shared", &out);
                        o.f("contributory", out != [0u8; 32]);
                        out
                    }
                    Some(RX::Ed(sk)) => {
                        let s = StaticSecret::from(sk.to_scalar_bytes());
                        shared_obs(&mut o, &s.diffie_hellman(&their))
                    }
                };
                if let Some(q) = peer {
                    self.shared.insert((*p, *q), sh);
                    if let Some(other) = self.shared.get(&(*q, *p)) {
                        o.f("agree", *other == sh);
                    }
                }
            }
            Step::XRaw { k, u } => {
                o.b("out", &x25519_dalek::x25519(k.a32(), u.a32()));
            }
            Step::MMul { u, s } => {
                let k = sc_real(s);
                let p = MontgomeryPoint(u.a32());
                let r1 = &p * &k;
                let r2 = &k * &p;
                let mut r3 = p;
                r3 *= &k;
                o.b("out", r1.as_bytes());
                if r1.as_bytes() != r2.as_bytes() || r1.as_bytes() != r3.as_bytes() {
                    o.f("paths_disagree", true);
                }
            }
            Step::MBase { s } => {
                let k = sc_real(s);
                o.b("out", MontgomeryPoint::mul_base(&k).as_bytes());
                o.b("clamped", MontgomeryPoint::mul_base_clamped(s.b.a32()).as_bytes());
            }
            Step::MBits { u, bits, n } => {
                let mut v = Vec::new();
                for byte in &bits.0 {
                    for j in (0..8).rev() {
                        v.push((byte >> j) & 1 == 1);
                    }
                }
                v.truncate(*n as usize);
                let r = MontgomeryPoint(u.a32()).mul_bits_be(v.into_iter());
                o.b("out", r.as_bytes());
            }
            Step::MToEd { u, sign } => {
                // the sign byte is passed as received: only its low bit may matter
                let p = MontgomeryPoint(u.a32()).to_edwards(*sign);
                o.f("some", p.is_some());
                if let Some(p) = p {
                    o.b("enc", p.compress().as_bytes());
                    // whatever comes back must be a point of the curve in a consistent representation
                    o.f("repr_ok", refmodel::ed::check_extended(&curve25519_dalek::verif_hooks::edwards_coords(&p)).is_ok());
                }
            }
            Step::MEq { a, b } => {
                use curve25519_dalek::traits::IsIdentity;
                use subtle::ConstantTimeEq;
                let (pa, pb) = (MontgomeryPoint(a.a32()), MontgomeryPoint(b.a32()));
                let eq = pa == pb;
                if eq != bool::from(pa.ct_eq(&pb)) {
                    o.f("eq_inconsistent", true);
                }
                o.f("eq", eq);
                let he = hash_of(&pa) == hash_of(&pb) && hash_of(&PublicKey::from(a.a32())) == hash_of(&PublicKey::from(b.a32()));
                o.f("hash_eq", he);
                o.f("a_identity", pa.is_identity());
            }
            Step::SKey { s, how, b, rng } => {
                let si = *s as usize % NPARTY;
                let signer: Option<RSigner> = match how {
                    0 => {
                        let stream = rng.as_ref().map(|r| r.b.0.clone()).unwrap_or_default();
                        let mut r = SimRng::new(&stream);
                        Some(RSigner::Key(SigningKey::generate(&mut r)))
                    }
                    1 => Some(RSigner::Key(SigningKey::from_bytes(&b.a32()))),
                    2 => SigningKey::from_keypair_bytes(&b.a64()).ok().map(RSigner::Key),
                    6 => {
                        // the PKCS#8 keypair route: same rule as from_keypair_bytes
                        let kb = ed25519_dalek::pkcs8::KeypairBytes::from_bytes(&b.a64());
                        let r1 = SigningKey::try_from(&kb).ok();
                        let r2 = SigningKey::try_from(kb).ok();
                        if r1.is_some() != r2.is_some() {
                            o.f("pkcs8_routes_disagree", true);
                        }
                        r1.map(RSigner::Key)
                    }
                    3 => SigningKey::try_from(&b.0[..]).ok().map(RSigner::Key),
                    4 => {
                        let esk = ExpandedSecretKey::from_bytes(&b.a64());
                        let vk = VerifyingKey::from(&esk);
                        Some(RSigner::Esk(esk, vk))
                    }
                    _ => ExpandedSecretKey::from_slice(&b.0).ok().map(|esk| {
                        let vk = VerifyingKey::from(&esk);
                        RSigner::Esk(esk, vk)
                    }),
                };
                o.f("ok", signer.is_some());
                match &signer {
                    Some(RSigner::Key(sk)) => {
                        o.b("pub", sk.verifying_key().as_bytes());
                        o.b("seed", &sk.to_bytes());
                        o.b("keypair", &sk.to_keypair_bytes());
                    }
                    Some(RSigner::Esk(esk, vk)) => {
                        o.b("pub", vk.as_bytes());
                        o.b("scalar", esk.scalar.as_bytes());
                        o.b("prefix", &esk.hash_prefix);
                    }
                    None => {}
                }
                self.s[si] = signer;
            }
            Step::Sign { s, m, mode, ctx, ch } => {
                let sg = match &self.s[*s as usize % NPARTY] {
                    Some(x) => x,
                    None => return Out::Skip,
                };
                let c = ctx.as_ref().map(|c| c.0.as_slice());
                let has_seed = matches!(sg, RSigner::Key(_));
                let mode = eff_sign_mode(*mode, has_seed);
                if mode == 6 {
                    chosen_clear();
                    if let Some(c) = c {
                        if c.len() >= 128 {
                            chosen_push(refmodel::arr64(&c[..64]));
                            chosen_push(refmodel::arr64(&c[64..128]));
                        }
                    }
                    let sig = match sg {
                        RSigner::Key(sk) => hazmat::raw_sign::<ChosenDigest>(&ExpandedSecretKey::from(&sk.to_bytes()), &m.0, &sk.verifying_key()),
                        RSigner::Esk(esk, vk) => hazmat::raw_sign::<ChosenDigest>(esk, &m.0, vk),
                    };
                    chosen_clear();
                    o.f("ok", true);
                    o.b("sig", &sig.to_bytes());
                    return Out::Obs(o);
                }
                let sig: Option<Signature> = match (sg, mode) {
                    (RSigner::Key(sk), 0) => Some(sk.sign(&m.0)),
                    (RSigner::Key(sk), 1) => sk.try_sign(&m.0).ok(),
                    (RSigner::Key(sk), 2) => sk.sign_prehashed(sha512_chunked(&m.0, ch), c).ok(),
                    (RSigner::Key(sk), 3) => match c {
                        Some(cv) => match sk.with_context(cv) {
                            Ok(cx) => cx.try_sign_digest(sha512_chunked(&m.0, ch)).ok(),
                            Err(_) => None,
                        },
                        None => DigestSigner::try_sign_digest(sk, sha512_chunked(&m.0, ch)).ok(),
                    },
                    (RSigner::Key(sk), 4) => {
                        let esk = ExpandedSecretKey::from(&sk.to_bytes());
                        Some(hazmat::raw_sign::<Sha512>(&esk, &m.0, &sk.verifying_key()))
                    }
                    (RSigner::Key(sk), 12) => sk.sign_prehashed(crate::env::alt_chunked(&m.0, ch), c).ok(),
                    (RSigner::Key(sk), 13) => match sk.with_context(c.unwrap_or(b"")) {
                        Ok(cx) => cx.try_sign_digest(crate::env::alt_chunked(&m.0, ch)).ok(),
                        Err(_) => None,
                    },
                    (RSigner::Key(sk), 14) => {
                        let esk = ExpandedSecretKey::from(&sk.to_bytes());
                        hazmat::raw_sign_prehashed::<Sha512, crate::env::AltDigest>(&esk, crate::env::alt_chunked(&m.0, ch), &sk.verifying_key(), c).ok()
                    }
                    (RSigner::Esk(esk, vk), 14) => hazmat::raw_sign_prehashed::<Sha512, crate::env::AltDigest>(esk, crate::env::alt_chunked(&m.0, ch), vk, c).ok(),
                    (RSigner::Key(sk), _) => {
                        let esk = ExpandedSecretKey::from(&sk.to_bytes());
                        hazmat::raw_sign_prehashed::<Sha512, Sha512>(&esk, sha512_chunked(&m.0, ch), &sk.verifying_key(), c).ok()
                    }
                    (RSigner::Esk(esk, vk), 4) => Some(hazmat::raw_sign::<Sha512>(esk, &m.0, vk)),
                    (RSigner::Esk(esk, vk), _) => hazmat::raw_sign_prehashed::<Sha512, Sha512>(esk, sha512_chunked(&m.0, ch), vk, c).ok(),
                };
                o.f("ok", sig.is_some());
                if let Some(sig) = sig {
                    o.b("sig", &sig.to_bytes());
                    let prehashed = !matches!(mode, 0 | 1 | 4);
                    let sv = match sg {
                        RSigner::Key(sk) if mode >= 12 => {
                            sk.verify_prehashed(crate::env::alt_chunked(&m.0, ch), c, &sig).is_ok()
                                && sk.verifying_key().verify_prehashed_strict(crate::env::alt_chunked(&m.0, ch), c, &sig).is_ok()
                        }
                        RSigner::Esk(_, vk) if mode >= 12 => vk.verify_prehashed(crate::env::alt_chunked(&m.0, ch), c, &sig).is_ok(),
                        RSigner::Key(sk) => {
                            if prehashed {
                                sk.verify_prehashed(sha512_chunked(&m.0, ch), c, &sig).is_ok()
                                    && sk.verifying_key().verify_prehashed_strict(sha512_chunked(&m.0, ch), c, &sig).is_ok()
                            } else {
                                SigningKey::verify(sk, &m.0, &sig).is_ok() && sk.verify_strict(&m.0, &sig).is_ok() && Verifier::verify(sk, &m.0, &sig).is_ok()
                            }
                        }
                        RSigner::Esk(_, vk) => {
                            if prehashed {
                                vk.verify_prehashed(sha512_chunked(&m.0, ch), c, &sig).is_ok()
                            } else {
                                vk.verify_strict(&m.0, &sig).is_ok()
                            }
                        }
                    };
                    // a clone of the key signs identically (state is not consumed by use)
                    let clone_ok = match sg {
                        RSigner::Key(sk) if mode == 0 => sk.clone().sign(&m.0).to_bytes() == sig.to_bytes(),
                        _ => true,
                    };
                    o.f("self_verify", sv && clone_ok);
                    if let RSigner::Key(sk) = sg {
                        use sha2::Digest;
                        let rb = curve25519_dalek::edwards::CompressedEdwardsY([1, 0, 0, 0, 0, 0, 0, 0, 0, 0, 0, 0, 0, 0, 0, 0, 0, 0, 0, 0, 0, 0, 0, 0, 0, 0, 0, 0, 0, 0, 0, 0]);
                        let mut h = Sha512::new();
                        h.update(rb.as_bytes());
                        h.update(sk.verifying_key().as_bytes());
                        h.update(&m.0);
                        let k = Scalar::from_hash(h);
                        let sv = k * sk.to_scalar();
                        let crafted = Signature::from_components(rb.to_bytes(), sv.to_bytes());
                        o.f("wrapper_identity_R_lenient", sk.verify(&m.0, &crafted).is_ok());
                        o.f("wrapper_identity_R_strict", sk.verify_strict(&m.0, &crafted).is_ok());
                    }
                }
            }
            Step::Ver { mode, key, m, sig, ctx, ch, chosen, d, ksrc, .. } => {
                let vk = match ksrc {
                    1 => Some(VerifyingKey::default()),
                    2 => VerifyingKey::try_from(&key.0[..]).ok().map(|k| VerifyingKey::from(k.to_edwards())),
                    // through the PKCS#8 / SPKI public-key bytes route: must keep the key bytes as given
                    3 if key.0.len() == 32 => VerifyingKey::try_from(ed25519_dalek::pkcs8::PublicKeyBytes(key.a32())).ok(),
                    _ => VerifyingKey::try_from(&key.0[..]).ok(),
                };
                let sg = Signature::from_slice(&sig.0).ok();
                o.f("key_ok", vk.is_some());
                o.f("sig_ok", sg.is_some());
                if let (Some(vk), Some(sg)) = (vk, sg) {
                    let c = ctx.as_ref().map(|c| c.0.as_slice());
                    set_dispatch(*d);
                    // in release builds the plain prehashed verifiers are also called with over-long contexts (no panic allowed)
                    let too_long = c.map(|c| c.len() > 255).unwrap_or(false) && (cfg!(debug_assertions) || *mode == 8);
                    use crate::env::{alt_chunked, AltDigest};
                    let acc: bool = match mode {
                        0 => vk.verify(&m.0, &sg).is_ok(),
                        1 => Verifier::verify(&vk, &m.0, &sg).is_ok(),
                        2 => vk.verify_strict(&m.0, &sg).is_ok(),
                        3 if !too_long => vk.verify_prehashed(sha512_chunked(&m.0, ch), c, &sg).is_ok(),
                        4 if !too_long => vk.verify_prehashed_strict(sha512_chunked(&m.0, ch), c, &sg).is_ok(),
                        5 => hazmat::raw_verify::<Sha512>(&vk, &m.0, &sg).is_ok(),
                        6 if !too_long => hazmat::raw_verify_prehashed::<Sha512, Sha512>(&vk, sha512_chunked(&m.0, ch), c, &sg).is_ok(),
                        7 => {
                            chosen_clear();
                            if let Some(cb) = chosen {
                                chosen_push(cb.a64());
                            }
                            let r = hazmat::raw_verify::<ChosenDigest>(&vk, &m.0, &sg).is_ok();
                            chosen_clear();
                            r
                        }
                        11 if !too_long => {
                            chosen_clear();
                            if let Some(cb) = chosen {
                                chosen_push(cb.a64());
                            }
                            let r = hazmat::raw_verify_prehashed::<ChosenDigest, Sha512>(&vk, sha512_chunked(&m.0, ch), c, &sg).is_ok();
                            chosen_clear();
                            r
                        }
                        8 => match vk.with_context(c.unwrap_or(b"")) {
                            Ok(cx) => cx.verify_digest(sha512_chunked(&m.0, ch), &sg).is_ok(),
                            Err(_) => false,
                        },
                        12 if !too_long => vk.verify_prehashed(alt_chunked(&m.0, ch), c, &sg).is_ok(),
                        13 if !too_long => vk.verify_prehashed_strict(alt_chunked(&m.0, ch), c, &sg).is_ok(),
                        14 if !too_long => hazmat::raw_verify_prehashed::<Sha512, AltDigest>(&vk, alt_chunked(&m.0, ch), c, &sg).is_ok(),
                        15 => match vk.with_context(c.unwrap_or(b"")) {
                            Ok(cx) => cx.verify_digest(alt_chunked(&m.0, ch), &sg).is_ok(),
                            Err(_) => false,
                        },
                        10 if c.is_none() => DigestVerifier::verify_digest(&vk, sha512_chunked(&m.0, ch), &sg).is_ok(),
                        10 if !too_long => vk.verify_prehashed(sha512_chunked(&m.0, ch), c, &sg).is_ok(),
                        // contexts longer than 255 bytes are outside the documented domain of the plain
                        // prehashed verifiers (DESIGN section 6); not called
                        _ => false,
                    };
                    set_dispatch(0);
                    o.f("accept", acc);
                }
            }
            Step::BQ { q, m, sig, key } => {
                let vk = VerifyingKey::try_from(&key.0[..]).ok();
                let sg = Signature::from_slice(&sig.0).ok();
                o.f("key_ok", vk.is_some());
                o.f("sig_ok", sg.is_some());
                if let (Some(vk), Some(sg)) = (vk, sg) {
                    self.q[*q as usize % NPARTY].push((m.0.clone(), sg, vk));
                }
            }
            Step::BFlush { q, var, arg, d, clear } => {
                let qi = *q as usize % NPARTY;
                let entries = self.q[qi].clone();
                if *var == 4 {
                    let (nm, ns, nk) = lens(arg, entries.len());
                    if nm == ns && ns == nk {
                        return Out::Skip;
                    }
                }
                if *var == 5 && entries.len() < 2 {
                    return Out::Skip;
                }
                if *clear {
                    self.q[qi].clear();
                }
                o.n("n", entries.len() as u64);
                let run = |es: &[(Vec<u8>, Signature, VerifyingKey)], nm: usize, ns: usize, nk: usize| -> bool {
                    let msgs: Vec<&[u8]> = es.iter().take(nm).map(|e| e.0.as_slice()).collect();
                    let sigs: Vec<Signature> = es.iter().take(ns).map(|e| e.1).collect();
                    let keys: Vec<VerifyingKey> = es.iter().take(nk).map(|e| e.2).collect();
                    ed25519_dalek::verify_batch(&msgs, &sigs, &keys).is_ok()
                };
                let n = entries.len();
                set_dispatch(*d);
                if *var == 4 {
                    let (nm, ns, nk) = lens(arg, n);
                    if nm == ns && ns == nk {
                        set_dispatch(0);
                        return Out::Skip;
                    }
                    let ok = run(&entries, nm, ns, nk);
                    set_dispatch(0);
                    o.f("ok", ok);
                    o.f("consistent", true);
                    return Out::Obs(o);
                }
                if *var == 5 {
                    if n < 2 {
                        set_dispatch(0);
                        return Out::Skip;
                    }
                    let first = run(&entries, n, n, n);
                    let zs = crate::env::last_batch_coefficients();
                    o.f("first_call_ok", first);
                    let (i, j) = (arg.first().map(|a| *a as usize % n).unwrap_or(0), arg.get(1).map(|a| *a as usize % n).unwrap_or(1));
                    let (i, j) = if i == j { (i, (i + 1) % n) } else { (i, j) };
                    let mut second = false;
                    if first && zs.len() == n {
                        let zi = Scalar::from_bytes_mod_order(zs[i]);
                        let zj = Scalar::from_bytes_mod_order(zs[j]);
                        let t = Scalar::from(0x1234_5678_9abc_def1u64);
                        let mut forged = entries.clone();
                        let si = Scalar::from_bytes_mod_order(*forged[i].1.s_bytes()) + zj * t;
                        let sj = Scalar::from_bytes_mod_order(*forged[j].1.s_bytes()) - zi * t;
                        forged[i].1 = Signature::from_components(*forged[i].1.r_bytes(), si.to_bytes());
                        forged[j].1 = Signature::from_components(*forged[j].1.r_bytes(), sj.to_bytes());
                        second = run(&forged, n, n, n);
                    }
                    set_dispatch(0);
                    o.f("ok_after_adaptive_shift", second);
                    return Out::Obs(o);
                }
                let base = run(&entries, n, n, n);
                let consistent = match var {
                    1 => run(&entries, n, n, n) == base,
                    2 => {
                        let mut perm: Vec<(Vec<u8>, Signature, VerifyingKey)> = Vec::new();
                        let mut used = vec![false; n];
                        for a in arg {
                            let i = *a as usize;
                            if i < n && !used[i] {
                                used[i] = true;
                                perm.push(entries[i].clone());
                            }
                        }
                        for i in 0..n {
                            if !used[i] {
                                perm.push(entries[i].clone());
                            }
                        }
                        run(&perm, n, n, n) == base
                    }
                    3 if n > 0 => {
                        let mut dup = entries.clone();
                        let j = arg.first().map(|a| *a as usize % n).unwrap_or(0);
                        dup.push(entries[j].clone());
                        run(&dup, n + 1, n + 1, n + 1) == base
                    }
                    _ => true,
                };
                set_dispatch(0);
                o.f("ok", base);
                o.f("consistent", consistent);
            }
            Step::SConv { s } => {
                let sk = match &self.s[*s as usize % NPARTY] {
                    Some(RSigner::Key(sk)) => sk,
                    _ => return Out::Skip,
                };
                let sb = sk.to_scalar_bytes();
                o.b("scalar_bytes", &sb);
                o.b("scalar", sk.to_scalar().as_bytes());
                o.b("mont", sk.verifying_key().to_montgomery().as_bytes());
                o.b("edw", sk.verifying_key().to_edwards().compress().as_bytes());
                o.b("x_pub", PublicKey::from(&StaticSecret::from(sb)).as_bytes());
            }
            Step::Decode { ty, b } => return r_decode(*ty, b),
            _ => return Out::Skip,
        }
        Out::Obs(o)
    }
}

fn r_decode(ty: u8, b: &B) -> Out {
    let mut o = Obs::new();
    match ty {
        0 => {
            let s: Option<Scalar> = Scalar::from_canonical_bytes(b.a32()).into();
            o.f("some", s.is_some());
            if let Some(s) = s {
                o.b("val", s.as_bytes());
            }
        }
        1 => {
            o.b("val", Scalar::from_bytes_mod_order(b.a32()).as_bytes());
        }
        2 => {
            o.b("val", Scalar::from_bytes_mod_order_wide(&b.a64()).as_bytes());
        }
        3 => {
            o.b("val", Scalar::hash_from_bytes::<Sha512>(&b.0).as_bytes());
        }
        4 => {
            chosen_clear();
            chosen_push(b.a64());
            let s = Scalar::from_hash(<ChosenDigest as digest::Digest>::new());
            chosen_clear();
            o.b("val", s.as_bytes());
        }
        5 => {
            let vk = VerifyingKey::try_from(&b.0[..]).ok();
            o.f("ok", vk.is_some());
            if let Some(vk) = vk {
                o.b("bytes", &vk.to_bytes());
                o.f("weak", vk.is_weak());
            }
        }
        6 => {
            let sk = SigningKey::try_from(&b.0[..]).ok();
            o.f("ok", sk.is_some());
            if let Some(sk) = sk {
                o.b("pub", sk.verifying_key().as_bytes());
            }
        }
        7 => {
            let s = Signature::from_slice(&b.0).ok();
            o.f("ok", s.is_some());
            if let Some(s) = s {
                o.b("bytes", &s.to_bytes());
            }
        }
        19 => {
            let s = Signature::try_from(&b.0[..]).ok();
            o.f("ok", s.is_some());
            if let Some(s) = s {
                o.b("bytes", &s.to_bytes());
            }
        }
        8 => {
            let ok = ExpandedSecretKey::from_slice(&b.0).is_ok() && ExpandedSecretKey::try_from(&b.0[..]).is_ok();
            o.f("ok", ok);
        }
        10 => {
            #[allow(deprecated)]
            let p = EdwardsPoint::nonspec_map_to_curve::<Sha512>(&b.0);
            let on_curve = refmodel::ed::check_extended(&curve25519_dalek::verif_hooks::edwards_coords(&p)).is_ok();
            o.f("valid", on_curve && p.is_torsion_free());
            o.b("enc", p.compress().as_bytes());
        }
        15 => {
            let ok = b.0.len() >= 64 && SigningKey::from_keypair_bytes(&b.a64()).is_ok();
            o.f("ok", ok);
        }
        _ => return Out::Skip,
    }
    Out::Obs(o)
}
