use crate::env::Out;
use simcore::Step;
pub struct ModelW;
pub struct RealW;
impl ModelW { pub fn new() -> Self { ModelW } pub fn apply(&mut self, _s: &Step) -> Out { Out::Skip } }
impl RealW { pub fn new() -> Self { RealW } pub fn apply(&mut self, _s: &Step) -> Out { Out::Skip } }
