//! Generator for the `group` family. Draws everything from one PRNG; uses the reference model
//! to know which handles are live and to aim at exceptional cases.

use crate::dict;
use crate::env::Out;
use crate::group::{sc_int, ModelG};
use refmodel::ed::{self, Pt};
use simcore::{bump, Counters, Plan, Prng, Sc, Step, B, H};

pub struct GenCfg {
    pub focus: String,
    pub thorough: bool,
}

const NH: u64 = 24;

struct G<'a> {
    rng: Prng,
    m: ModelG,
    steps: Vec<Step>,
    c: Counters,
    fault_pct: u64,
    disp_policy: u64,
    it_policy: u64,
    cfg: &'a GenCfg,
    /// a fixed share of the runs (by run number) is given one very long multiscalar input
    force_big: bool,
}

impl<'a> G<'a> {
    fn emit(&mut self, st: Step) -> bool {
        let out = self.m.apply(&st);
        self.steps.push(st);
        matches!(out, Out::Obs(_))
    }
    fn file(&self, g: u8) -> &Vec<Option<Pt>> {
        if g == 0 {
            &self.m.e
        } else {
            &self.m.r
        }
    }
    fn live(&self, g: u8) -> Vec<H> {
        self.file(g).iter().enumerate().filter(|(i, p)| p.is_some() && (*i as u64) < NH).map(|(i, _)| i as H).collect()
    }
    fn pick(&mut self, g: u8) -> Option<H> {
        let l = self.live(g);
        if l.is_empty() {
            None
        } else {
            Some(l[self.rng.below(l.len() as u64) as usize])
        }
    }
    fn val(&self, g: u8, h: H) -> Pt {
        self.file(g)[h as usize].unwrap()
    }
    fn dst(&mut self) -> H {
        self.rng.below(NH) as H
    }
    fn faulty(&mut self) -> bool {
        self.fault_pct > 0 && self.rng.below(100) < self.fault_pct
    }
    fn disp(&mut self) -> u8 {
        match self.disp_policy {
            4 => self.rng.below(4) as u8,
            p => p as u8,
        }
    }
    fn it(&mut self) -> u8 {
        match self.it_policy {
            4 => self.rng.below(4) as u8,
            p => p as u8,
        }
    }
    fn scalar(&mut self, unreduced_ok: bool) -> Sc {
        let s = dict::scalar(&mut self.rng, unreduced_ok, &mut self.c);
        probe_scalar(&s, &mut self.c);
        s
    }
    fn scalar_canon(&mut self) -> Sc {
        let s = dict::scalar_canonical(&mut self.rng, &mut self.c);
        probe_scalar(&s, &mut self.c);
        s
    }

    /// a decode step: honest re-encoding of a live handle, or one of Mallory's rewrites
    fn decode(&mut self, g: u8) {
        let src = self.pick(g);
        let faulty = self.faulty();
        let bytes = if g == 0 {
            let honest = src.map(|h| self.val(0, h).encode());
            dict::edwards_wire(&mut self.rng, honest, faulty, &mut self.c)
        } else {
            let honest = src.map(|h| refmodel::ristretto::encode(&self.val(1, h)));
            dict::ristretto_wire(&mut self.rng, honest, faulty, &mut self.c)
        };
        let via = if bytes.len() != 32 { 1 + 2 * self.rng.below(2) as u8 } else { self.rng.below(6) as u8 };
        let dst = self.dst();
        { let st__ = Step::Dec { g, dst, b: B(bytes), via }; self.emit(st__); }
    }

    fn bootstrap(&mut self, g: u8) {
        let d0 = self.dst();
        { let st__ = Step::Const { g, dst: d0, which: 1 }; self.emit(st__); }
        let s = self.scalar_canon();
        let (d1, dd) = (self.dst(), self.disp());
        { let st__ = Step::MulBase { g, dst: d1, s, via: self.rng.below(3) as u8, d: dd }; self.emit(st__); }
        if g == 0 {
            let p = dict::random_point(&mut self.rng);
            let d2 = self.dst();
            { let st__ = Step::Dec { g: 0, dst: d2, b: B(p.encode().to_vec()), via: 0 }; self.emit(st__); }
        } else {
            let d2 = self.dst();
            let b = self.rng.bytes(64);
            { let st__ = Step::Uni { dst: d2, b: B(b), via: 0 }; self.emit(st__); }
        }
    }

    /// add a torsion point to a live Edwards handle (mixed-order point)
    fn add_torsion(&mut self) {
        if let Some(a) = self.pick(0) {
            let t = ed::torsion()[1 + self.rng.below(7) as usize];
            let td = self.dst();
            { let st__ = Step::Dec { g: 0, dst: td, b: B(t.encode().to_vec()), via: 0 }; self.emit(st__); }
            let dst = self.dst();
            bump(&mut self.c, "gen:add_torsion");
            { let st__ = Step::Bin { g: 0, dst, a, b: td, sub: self.rng.coin(), via: self.rng.below(4) as u8 }; self.emit(st__); }
        }
    }

    fn binop(&mut self, g: u8) {
        let a = match self.pick(g) {
            Some(a) => a,
            None => return,
        };
        let sub = self.rng.coin();
        let via = self.rng.below(4) as u8;
        // exceptional second operands
        let b = match self.rng.below(10) {
            0 | 1 => a,
            2 => {
                // -a
                let nd = self.dst();
                { let st__ = Step::Neg { g, dst: nd, a }; self.emit(st__); }
                nd
            }
            3 if g == 0 => {
                // a + torsion
                let t = ed::torsion()[1 + self.rng.below(7) as usize];
                let td = self.dst();
                { let st__ = Step::Dec { g: 0, dst: td, b: B(t.encode().to_vec()), via: 0 }; self.emit(st__); }
                let sd = self.dst();
                { let st__ = Step::Bin { g: 0, dst: sd, a, b: td, sub: false, via: 0 }; self.emit(st__); }
                sd
            }
            _ => self.pick(g).unwrap_or(a),
        };
        if self.file(g)[a as usize].is_none() || self.file(g)[b as usize].is_none() {
            return;
        }
        let (p, q) = (self.val(g, a), self.val(g, b));
        let q_eff = if sub { q.neg() } else { q };
        if p == q_eff {
            bump(&mut self.c, "probe:P_plus_P_through_addition");
        }
        if p == q_eff.neg() {
            bump(&mut self.c, "probe:P_plus_minus_P");
        }
        if p != q_eff && p.sub(&q_eff).is_small_order() {
            bump(&mut self.c, "probe:operands_differ_by_torsion");
        }
        if p.is_identity() || q.is_identity() {
            bump(&mut self.c, "probe:identity_operand");
        }
        let dst = self.dst();
        // sometimes through the mixed EdwardsPoint / SubgroupPoint operators (right operand must be torsion-free)
        let via = if g == 0 && q.is_torsion_free() && self.rng.chance(1, 3) { 4 + self.rng.below(4) as u8 } else { via };
        { let st__ = Step::Bin { g, dst, a, b, sub, via }; self.emit(st__); }
    }

    fn msm(&mut self, g: u8) {
        let sizes_q: [(u64, u32); 10] = [(0, 4), (1, 10), (2, 14), (3, 14), (4, 8), (8, 16), (17, 8), (64, 6), (190, 2), (191, 2)];
        let sizes_t: [(u64, u32); 9] = [(189, 3), (192, 2), (249, 2), (250, 2), (499, 2), (500, 2), (799, 1), (800, 1), (1024, 1)];
        let mut sizes: Vec<(u64, u32)> = sizes_q.to_vec();
        sizes.push((189, 2));
        if self.rng.chance(1, 2) {
            // rarely, even in the quick tier: a size in the 8-bit-window regime of Pippenger
            sizes.push((800, 2));
        }
        if self.rng.chance(1, 20) || (self.cfg.thorough && self.rng.chance(1, 3)) {
            // beyond any size the repository's tests use (a batch of 1024 signatures has 2049 terms)
            sizes.push((2049, 1));
        }
        if self.rng.chance(1, 3) {
            // the 7-bit-window regime of Pippenger (500 <= n < 800)
            sizes.push((600, 2));
        }
        if self.cfg.thorough {
            sizes.extend_from_slice(&sizes_t);
        }
        let w: Vec<u32> = sizes.iter().map(|x| x.1).collect();
        let mut n = sizes[self.rng.weighted(&w)].0 as usize;
        let mut entry = self.rng.below(3) as u8;
        let mut force_plain = false;
        let forced = self.force_big;
        self.force_big = false;
        if forced || self.rng.chance(1, if self.cfg.thorough { 200 } else { 700 }) {
            // more terms than any fixed-size block an implementation might work in (4096, 8192)
            n = if self.rng.coin() { 4100 } else { 8200 };
            if self.rng.coin() {
                entry = 0;
            }
            force_plain = self.rng.coin();
            bump(&mut self.c, "probe:msm_beyond_block_sizes");
        }
        let live = self.live(g);
        if live.is_empty() {
            return;
        }
        let mut ss = Vec::with_capacity(n);
        let mut hs = Vec::with_capacity(n);
        // rarely: unreduced scalars (public-API inputs whose result C04 does not decide; configurations must still agree)
        let unreduced_mode = self.rng.chance(1, 10) || (n >= 800 && self.rng.coin());
        if unreduced_mode {
            bump(&mut self.c, "probe:msm_with_unreduced_scalars");
        }
        // every scalar of the input short (top bytes zero): an implementation may size its work from the longest one
        let short_len = if !unreduced_mode && self.rng.chance(1, if (500..800).contains(&n) { 3 } else { 8 }) { 1 + self.rng.below(31) as usize } else { 32 };
        if short_len < 32 {
            bump(&mut self.c, "probe:msm_all_scalars_short");
        }
        for _ in 0..n {
            let mut s = if unreduced_mode { self.scalar(true) } else { self.scalar_canon() };
            if short_len < 32 {
                let mut b = [0u8; 32];
                b[..short_len].copy_from_slice(&s.b.0[..short_len]);
                if self.rng.chance(1, 3) {
                    b[short_len - 1] |= 0x80;
                }
                s = Sc { b: B(b.to_vec()), k: 1 };
            }
            ss.push(s);
            hs.push(Some(live[self.rng.below(live.len() as u64) as usize]));
        }
        if n >= 2 && !unreduced_mode && self.rng.chance(1, 6) {
            // related terms: pairs (s, P), (-s, P) that cancel - part of the sum, or all of it (result = identity)
            bump(&mut self.c, "probe:msm_cancelling_pairs");
            let all = self.rng.chance(1, 3);
            let pairs = if all { n / 2 } else { 1 + self.rng.below((n / 2) as u64) as usize };
            for j in 0..pairs {
                let (i0, i1) = (2 * j, 2 * j + 1);
                let sv = refmodel::Sc::from_bytes_mod_order(&ss[i0].b.a32());
                ss[i0] = Sc { b: B(sv.to_bytes().to_vec()), k: 1 };
                ss[i1] = Sc { b: B(sv.neg().to_bytes().to_vec()), k: 1 };
                hs[i1] = hs[i0];
            }
            if all && n % 2 == 1 {
                ss[n - 1] = Sc { b: B(vec![0u8; 32]), k: 1 };
            }
        }
        if g == 0 && n >= 8 && self.rng.chance(1, 6) {
            // a small-order point and the identity somewhere deep inside a long input
            bump(&mut self.c, "probe:msm_special_points_inside");
            let (t_h, id_h) = (self.dst(), self.dst());
            if t_h != id_h {
                let t = ed::torsion()[1 + self.rng.below(7) as usize];
                { let st__ = Step::Dec { g: 0, dst: t_h, b: B(t.encode().to_vec()), via: 0 }; self.emit(st__); }
                { let st__ = Step::Const { g: 0, dst: id_h, which: 0 }; self.emit(st__); }
                let (p1, p2) = (self.rng.below(n as u64) as usize, self.rng.below(n as u64) as usize);
                if hs[p1].is_some() {
                    hs[p1] = Some(t_h);
                }
                if hs[p2].is_some() && p2 != p1 {
                    hs[p2] = Some(id_h);
                }
            }
        }
        if entry == 2 && n > 0 && self.rng.chance(if n >= 189 { 6 } else { 3 }, 10) {
            let pos = match self.rng.below(4) {
                0 => {
                    bump(&mut self.c, "fault:none_point_first");
                    0
                }
                1 => {
                    bump(&mut self.c, "fault:none_point_last");
                    n - 1
                }
                2 => {
                    bump(&mut self.c, "fault:none_point_middle");
                    n / 2
                }
                _ => {
                    bump(&mut self.c, "fault:none_point_random");
                    self.rng.below(n as u64) as usize
                }
            };
            hs[pos] = None;
            if self.rng.chance(1, 2) {
                // the missing point sits next to a zero scalar (a term that contributes nothing must still count)
                bump(&mut self.c, "fault:none_point_with_zero_scalar");
                ss[pos] = Sc { b: B(vec![0u8; 32]), k: 1 };
            }
        }
        bump(&mut self.c, &format!("probe:msm_n={}", n));
        let (dst, mut it, d) = (self.dst(), self.it(), self.disp());
        if force_plain {
            it = 3;
        }
        { let st__ = Step::Msm { g, dst, entry, ss, hs, it, d }; self.emit(st__); }
    }

    fn pre(&mut self, g: u8) {
        let live = self.live(g);
        if live.is_empty() {
            return;
        }
        let nst = self.rng.below(7) as usize;
        let st: Vec<H> = (0..nst).map(|_| live[self.rng.below(live.len() as u64) as usize]).collect();
        let nss = if nst > 0 && self.rng.chance(1, 4) { self.rng.below(nst as u64 + 1) as usize } else { nst };
        if nss < nst {
            bump(&mut self.c, "probe:pre_fewer_static_scalars");
        }
        // (Ristretto only: legacy unreduced scalars - in a prime-order group the sum does not depend on how they are read)
        let unred = g == 1 && self.rng.chance(1, 6);
        if unred {
            bump(&mut self.c, "probe:precomputed_with_unreduced_scalars_ristretto");
        }
        let ss: Vec<Sc> = (0..nss).map(|_| if unred { self.scalar(true) } else { self.scalar_canon() }).collect();
        let entry = self.rng.below(3) as u8;
        let nd = if entry == 0 { 0 } else { self.rng.below(5) as usize };
        let ds: Vec<Sc> = (0..nd).map(|_| if unred { self.scalar(true) } else { self.scalar_canon() }).collect();
        let mut dh: Vec<Option<H>> = (0..nd).map(|_| Some(live[self.rng.below(live.len() as u64) as usize])).collect();
        if entry == 2 && nd > 0 && self.rng.chance(3, 10) {
            let pos = self.rng.below(nd as u64) as usize;
            dh[pos] = None;
            bump(&mut self.c, "fault:none_point_precomputed");
        }
        let (dst, d) = (self.dst(), self.disp());
        let it = self.rng.below(3) as u8;
        let slot = self.rng.below(4) as u8;
        let nst_kept = st.len();
        { let st__ = Step::Pre { g, dst, entry, st, ss, ds, dh, d, it, slot }; self.emit(st__); }
        // the same precomputation object is used again with other scalars (n-th use)
        let uses = self.rng.below(3);
        for _ in 0..uses {
            let live = self.live(g);
            if live.is_empty() {
                break;
            }
            let nss = self.rng.below(nst_kept as u64 + 1) as usize;
            let unred = g == 1 && self.rng.chance(1, 6);
            if unred {
                bump(&mut self.c, "probe:precomputed_with_unreduced_scalars_ristretto");
            }
            let ss: Vec<Sc> = (0..nss).map(|_| if unred { self.scalar(true) } else { self.scalar_canon() }).collect();
            let entry = self.rng.below(3) as u8;
            let nd = if entry == 0 { 0 } else { self.rng.below(4) as usize };
            let ds: Vec<Sc> = (0..nd).map(|_| if unred { self.scalar(true) } else { self.scalar_canon() }).collect();
            let dh: Vec<Option<H>> = (0..nd).map(|_| Some(live[self.rng.below(live.len() as u64) as usize])).collect();
            let (dst, d) = (self.dst(), self.disp());
            bump(&mut self.c, "probe:precomputation_object_reused");
            { let st__ = Step::PUse { g, dst, slot, entry, ss, ds, dh, d }; self.emit(st__); }
        }
    }

    fn scalar_mul_entry(&mut self, g: u8) {
        let a = match self.pick(g) {
            Some(a) => a,
            None => return,
        };
        let (dst, d) = (self.dst(), self.disp());
        match self.rng.below(if g == 0 { 11 } else { 9 }) {
            0 | 1 | 2 => {
                let s = self.scalar(true);
                { let st__ = Step::Mul { g, dst, a, s, via: self.rng.below(4) as u8, d }; self.emit(st__); }
            }
            3 => {
                let s = self.scalar(true);
                { let st__ = Step::MulBase { g, dst, s, via: self.rng.below(3) as u8, d }; self.emit(st__); }
            }
            4 => {
                let s = self.scalar(true);
                let radix = if g == 0 { [16u16, 32, 64, 128, 256][self.rng.below(5) as usize] } else { 16 };
                bump(&mut self.c, &format!("probe:table_radix_{}", radix));
                let slot = self.rng.below(4) as u8;
                { let st__ = Step::Table { g, dst, a, radix, s, slot }; self.emit(st__); }
                // the same table object is used again, possibly much later
                let uses = self.rng.below(3);
                for _ in 0..uses {
                    let (s2, d2) = (self.scalar(true), self.dst());
                    bump(&mut self.c, "probe:table_object_reused");
                    { let st__ = Step::TUse { g, dst: d2, slot, s: s2 }; self.emit(st__); }
                }
            }
            5 => {
                let (mut sa, mut sb) = (self.scalar(true), self.scalar(true));
                // one or both scalars zero: the degenerate columns of the interleaved NAF loop
                match self.rng.below(12) {
                    0 => {
                        sa = Sc { b: B(vec![0u8; 32]), k: 1 };
                        sb = Sc { b: B(vec![0u8; 32]), k: 1 };
                        bump(&mut self.c, "probe:double_base_both_zero");
                    }
                    1 => sa = Sc { b: B(vec![0u8; 32]), k: 1 },
                    2 => sb = Sc { b: B(vec![0u8; 32]), k: 1 },
                    _ => {}
                }
                { let st__ = Step::Dbl2 { g, dst, sa, a, sb, d }; self.emit(st__); }
            }
            6 | 7 => self.msm(g),
            8 => self.pre(g),
            _ => {
                let k = B(self.rng.bytes(32));
                let a = if self.rng.coin() { Some(a) } else { None };
                { let st__ = Step::Clamp { dst, a, k, d }; self.emit(st__); }
            }
        }
    }

    /// a point whose encoding is a small integer (small y, small Montgomery u, small Ristretto s), reached as the result
    /// of generic additions (P - Q) + Q so that its coordinates are barely-reduced products when it is encoded
    fn small_encoding_result(&mut self, g: u8) {
        let q = match self.pick(g) {
            Some(q) => q,
            None => return,
        };
        let bits = [4u32, 8, 16, 32, 51, 57][self.rng.below(6) as usize];
        let mut enc = None;
        for _try in 0..40 {
            let v = 2 + (self.rng.next() & (u64::MAX >> (64 - bits)));
            let mut b = [0u8; 32];
            b[..8].copy_from_slice(&v.to_le_bytes());
            if g == 0 {
                if self.rng.coin() {
                    if Pt::decode(&b).is_some() {
                        enc = Some(b);
                        break;
                    }
                } else if let Some(p) = refmodel::x25519::to_edwards(&b, self.rng.below(2) as u8) {
                    enc = Some(p.encode());
                    break;
                }
            } else {
                b[0] &= 0xfe;
                if refmodel::ristretto::decode(&b).is_some() {
                    enc = Some(b);
                    break;
                }
            }
        }
        let enc = match enc {
            Some(e) => e,
            None => return,
        };
        bump(&mut self.c, "probe:small_encoding_as_result_of_additions");
        let h1 = self.dst();
        { let st__ = Step::Dec { g, dst: h1, b: B(enc.to_vec()), via: 0 }; self.emit(st__); }
        let h2 = self.dst();
        { let st__ = Step::Bin { g, dst: h2, a: h1, b: q, sub: true, via: 0 }; self.emit(st__); }
        let h3 = self.dst();
        { let st__ = Step::Bin { g, dst: h3, a: h2, b: q, sub: false, via: self.rng.below(4) as u8 }; self.emit(st__); }
        if self.file(g)[h3 as usize].is_some() {
            { let st__ = Step::Cmp { g, a: h3 }; self.emit(st__); }
            if g == 0 {
                { let st__ = Step::ToMont { a: h3 }; self.emit(st__); }
            }
        }
    }

    fn group_op(&mut self, g: u8) {
        if self.rng.chance(1, 30) {
            self.small_encoding_result(g);
            return;
        }
        if self.rng.chance(1, 40) {
            let (a, b) = (self.scalar(true), if self.rng.chance(1, 6) { Sc { b: B(vec![0u8; 32]), k: 1 } } else { self.scalar(true) });
            { let st__ = Step::SArith { a, b }; self.emit(st__); }
            return;
        }
        let dst = self.dst();
        let a = match self.pick(g) {
            Some(a) => a,
            None => return,
        };
        match self.rng.below(if g == 0 { 17 } else { 16 }) {
            0 | 1 | 2 | 3 => self.binop(g),
            4 => {
                { let st__ = Step::Neg { g, dst, a }; self.emit(st__); }
            }
            5 => {
                { let st__ = Step::Dbl { g, dst, a, via: self.rng.below(2) as u8 }; self.emit(st__); }
            }
            6 => {
                let n = self.rng.below(6) as usize;
                let live = self.live(g);
                let hs: Vec<H> = (0..n).map(|_| live[self.rng.below(live.len() as u64) as usize]).collect();
                { let st__ = Step::Sum { g, dst, hs }; self.emit(st__); }
            }
            7 => {
                let b = self.pick(g).unwrap_or(a);
                { let st__ = Step::Sel { g, dst, a, b, c: self.rng.below(2) as u8, via: self.rng.below(3) as u8 }; self.emit(st__); }
            }
            8 | 9 => {
                { let st__ = Step::Cmp { g, a }; self.emit(st__); }
            }
            10 => {
                // equality: same handle, unrelated handles, and the exceptional pairs (P vs -P, P vs P+T, two torsion points)
                let b = match self.rng.below(6) {
                    0 => a,
                    1 => {
                        let nd = self.dst();
                        { let st__ = Step::Neg { g, dst: nd, a }; self.emit(st__); }
                        nd
                    }
                    2 if g == 0 => {
                        let t = ed::torsion()[1 + self.rng.below(7) as usize];
                        let td = self.dst();
                        { let st__ = Step::Dec { g: 0, dst: td, b: B(t.encode().to_vec()), via: 0 }; self.emit(st__); }
                        let sd = self.dst();
                        { let st__ = Step::Bin { g: 0, dst: sd, a, b: td, sub: false, via: 0 }; self.emit(st__); }
                        bump(&mut self.c, "probe:eq_against_torsion_shift");
                        sd
                    }
                    3 if g == 0 => {
                        // two small-order points against each other (includes the y = 0 and x = 0 pairs)
                        let (i, j) = (self.rng.below(8) as usize, self.rng.below(8) as usize);
                        let (d1, d2) = (self.dst(), self.dst());
                        { let st__ = Step::Dec { g: 0, dst: d1, b: B(ed::torsion()[i].encode().to_vec()), via: 0 }; self.emit(st__); }
                        { let st__ = Step::Dec { g: 0, dst: d2, b: B(ed::torsion()[j].encode().to_vec()), via: 0 }; self.emit(st__); }
                        bump(&mut self.c, "probe:eq_two_torsion_points");
                        if self.file(0)[d1 as usize].is_some() && self.file(0)[d2 as usize].is_some() && d1 != d2 {
                            { let st__ = Step::Eq { g: 0, a: d1, b: d2 }; self.emit(st__); }
                        }
                        d2
                    }
                    _ => self.pick(g).unwrap_or(a),
                };
                if self.file(g)[a as usize].is_some() && self.file(g)[b as usize].is_some() {
                    { let st__ = Step::Eq { g, a, b }; self.emit(st__); }
                }
            }
            11 => self.decode(g),
            12 => {
                if self.rng.chance(1, 4) {
                    { let st__ = Step::Zero { g, a }; self.emit(st__); }
                } else if g == 0 && self.rng.coin() {
                    // the library's public small-order constants, then used as an operand
                    let which = 3 + self.rng.below(8) as u8;
                    bump(&mut self.c, "probe:torsion_constant_used");
                    { let st__ = Step::Const { g, dst, which }; self.emit(st__); }
                    let d2 = self.dst();
                    { let st__ = Step::Bin { g: 0, dst: d2, a, b: dst, sub: self.rng.coin(), via: self.rng.below(4) as u8 }; self.emit(st__); }
                } else {
                    { let st__ = Step::Const { g, dst, which: self.rng.below(3) as u8 }; self.emit(st__); }
                }
            }
            13 => {
                if g == 0 {
                    { let st__ = Step::Pred { a }; self.emit(st__); }
                } else {
                    let mut n = self.rng.below(6) as usize;
                    if self.rng.chance(1, 40) {
                        // longer than anything the repository's tests use
                        n = [1023usize, 1024, 1025, 1500, 2049][self.rng.below(5) as usize];
                        bump(&mut self.c, "probe:batch_longer_than_1024");
                    }
                    let live = self.live(1);
                    let mut hs: Vec<H> = (0..n).map(|_| live[self.rng.below(live.len() as u64) as usize]).collect();
                    if self.rng.chance(1, 3) {
                        // include the identity coset
                        let id = self.dst();
                        { let st__ = Step::Const { g: 1, dst: id, which: 0 }; self.emit(st__); }
                        if self.rng.coin() {
                            // the identity element held as another coset representative (order-2 / order-4 point)
                            let j = 1 + self.rng.below(3) as u8;
                            { let st__ = Step::Rerep { a: id, j }; self.emit(st__); }
                            bump(&mut self.c, "probe:batch_with_torsion_representative_of_identity");
                        }
                        if self.rng.coin() {
                            hs.insert(0, id);
                        } else {
                            hs.push(id);
                        }
                        bump(&mut self.c, "probe:batch_with_identity");
                    }
                    { let st__ = Step::Batch { hs }; self.emit(st__); }
                }
            }
            14 => {
                if g == 0 {
                    match self.rng.below(3) {
                        0 => {
                            { let st__ = Step::Cof { dst, a }; self.emit(st__); }
                        }
                        1 => self.add_torsion(),
                        _ => {
                            { let st__ = Step::ToMont { a }; self.emit(st__); }
                        }
                    }
                } else {
                    let j = self.rng.below(4) as u8;
                    bump(&mut self.c, "fault:coset_rerepresent");
                    { let st__ = Step::Rerep { a, j }; self.emit(st__); }
                }
            }
            _ => {
                match if g == 0 { self.rng.below(4) } else { 3 } {
                    0 => {
                        { let st__ = Step::Pred { a }; self.emit(st__); }
                    }
                    1 => {
                        let via = self.rng.below(3) as u8;
                        { let st__ = Step::Cofac { dst, a, via }; self.emit(st__); }
                    }
                    _ => {
                        // the random constructors, from a simulated RNG (possibly stuck or short-period)
                        let n = if self.faulty() {
                            bump(&mut self.c, "fault:rng_short_period");
                            1 + self.rng.below(40) as usize
                        } else {
                            64 + self.rng.below(64) as usize
                        };
                        let stream = self.rng.bytes(n);
                        if crate::group::model_random(g, &stream).is_some() {
                            { let st__ = Step::Rand { g, dst, rng: simcore::Rng { b: B(stream), mode: 0 } }; self.emit(st__); }
                        }
                    }
                }
            }
        }
    }
}

/// model-side probes on scalars: which rare digit patterns the workload reached
pub fn probe_scalar(s: &Sc, c: &mut Counters) {
    let v = sc_int(s);
    if v[31] & 0x40 != 0 {
        bump(c, "probe:scalar_bit254_set");
    }
    if s.k == 2 && !refmodel::Sc::is_canonical_bytes(&{
        let mut a = [0u8; 32];
        a.copy_from_slice(&v);
        a
    }) {
        bump(c, "probe:scalar_unreduced_ge_l");
    }
    // radix-16 recentring: top digit 8
    let mut d = [0i16; 64];
    for i in 0..32 {
        d[2 * i] = (v[i] & 15) as i16;
        d[2 * i + 1] = (v[i] >> 4) as i16;
    }
    for i in 0..63 {
        let carry = (d[i] + 8) >> 4;
        d[i] -= carry << 4;
        d[i + 1] += carry;
    }
    if d[63] == 8 {
        bump(c, "probe:radix16_top_digit_8");
    }
    if d.iter().any(|&x| x == -8) {
        bump(c, "probe:radix16_digit_minus_8");
    }
    if v.iter().all(|&x| x == 0) {
        bump(c, "probe:scalar_zero");
    }
}

pub fn generate(seed: u64, run: u64, cfg: &GenCfg) -> Plan {
    let fam = 0x67_72_6f_75_70 ^ simcore::fnv1a(cfg.focus.as_bytes());
    let mut rng = Prng::new(simcore::run_seed(seed, fam, run));
    let nsteps = if rng.chance(1, 4) { rng.range(4, 20) } else { rng.range(20, 160) } as usize;
    let fault_pct = *rng.pick(&[0u64, 0, 5, 15, 30]);
    let disp_policy = rng.below(5);
    let it_policy = rng.below(5);
    let mut g = G { rng, m: ModelG::new(), steps: Vec::new(), c: Counters::new(), fault_pct, disp_policy, it_policy, cfg, force_big: run % 200 == 11 };
    bump(&mut g.c, if fault_pct == 0 { "runs:fault_free" } else { "runs:fault_injecting" });
    bump(&mut g.c, &format!("swarm:dispatch_policy_{}", disp_policy));

    let focus = cfg.focus.as_str();
    // which group(s) this run lives in
    let ris_pct: u64 = match focus {
        "C03" => 0,
        "C06" => 85,
        _ => 35,
    };
    g.bootstrap(0);
    if focus == "C04" || g.rng.chance(1, 3) {
        g.add_torsion();
    }
    if ris_pct > 0 {
        g.bootstrap(1);
    }
    // scalar-mul share of the mix
    let mul_pct: u64 = match focus {
        "C04" => 55,
        "C03" | "C06" => 8,
        _ => 25,
    };
    while g.steps.len() < nsteps {
        let grp: u8 = if g.rng.below(100) < ris_pct { 1 } else { 0 };
        if g.live(grp).is_empty() {
            g.bootstrap(grp);
        }
        let r = g.rng.below(100);
        if r < mul_pct {
            g.scalar_mul_entry(grp);
        } else if grp == 1 && r < mul_pct + 12 {
            // Ristretto-specific sources
            match g.rng.below(3) {
                0 => {
                    let dst = g.dst();
                    let via = g.rng.below(3) as u8;
                    let n = if via == 2 { g.rng.below(100) as usize } else { 64 };
                    let mut b = g.rng.bytes(n);
                    if via != 2 && g.faulty() {
                        // chosen one-way-map inputs: all-ones halves, zero halves, bit 255 set
                        bump(&mut g.c, "fault:uniform_bytes_special");
                        match g.rng.below(3) {
                            0 => b[..32].copy_from_slice(&[0xff; 32]),
                            1 => b[32..].copy_from_slice(&[0u8; 32]),
                            _ => {
                                b[31] |= 0x80;
                                b[63] |= 0x80
                            }
                        }
                    }
                    { let st__ = Step::Uni { dst, b: B(b), via }; g.emit(st__); }
                }
                1 => {
                    if let Some(a) = g.pick(0) {
                        let dst = g.dst();
                        { let st__ = Step::FromEd { dst, a }; g.emit(st__); }
                    }
                }
                _ => g.decode(1),
            }
        } else {
            g.group_op(grp);
        }
    }
    // final sweep: every live handle is compressed and compared
    for grp in 0..2u8 {
        for h in g.live(grp) {
            g.steps.push(Step::Cmp { g: grp, a: h });
        }
    }
    Plan { family: "group".into(), focus: cfg.focus.clone(), seed, run, faults: g.c, ticks: 0, steps: g.steps }
}
