//! Generator for the `wire` family: parties exchanging keys, signatures and batch entries over a
//! simulated network (SimNet) with an in-path adversary. The network, its delays, losses,
//! duplications, reorderings and Byzantine rewrites are simulated here, from the one PRNG; the
//! resulting delivery sequence is the explicit plan the executor replays.

use crate::dict;
use crate::env::{Obs, Out};
use crate::wire::ModelW;
use refmodel::ed::{self, Pt};
use refmodel::eddsa::{self, RealSha512, H512};
use refmodel::{arr32, sc};
use simcore::{bump, Counters, Plan, Prng, Rng, Sc, Step, B};
use std::cmp::Reverse;
use std::collections::BinaryHeap;

#[derive(Clone, Debug)]
enum Msg {
    /// X25519 public key of `from` travelling to `to`; honest = unmodified
    Pub { from: u8, to: u8, bytes: [u8; 32], honest: bool },
    /// request to signer
    SignReq { s: u8, m: Vec<u8>, mode: u8, ctx: Option<Vec<u8>> },
    /// a (key, message, signature) triple travelling to a verifier
    Triple { mode: u8, key: Vec<u8>, m: Vec<u8>, sig: Vec<u8>, ctx: Option<Vec<u8>>, chosen: Option<[u8; 64]>, hon: bool },
    /// a triple travelling to batch queue q
    Entry { q: u8, key: Vec<u8>, m: Vec<u8>, sig: Vec<u8> },
    Flush { q: u8 },
}

struct W<'a> {
    rng: Prng,
    m: ModelW,
    steps: Vec<Step>,
    c: Counters,
    fault_pct: u64,
    disp_policy: u64,
    thorough: bool,
    focus: &'a str,
    // SimNet
    heap: BinaryHeap<Reverse<(u64, u64)>>,
    msgs: Vec<Option<Msg>>,
    now: u64,
    // what the adversary has seen (for swaps / replays)
    seen_triples: Vec<(Vec<u8>, Vec<u8>, Vec<u8>)>,
    damaged_honest_ctx: bool,
    /// a fixed share of the runs (by run number, so that every tier and every plan mix contains them) is given one very
    /// large batch
    force_big: Option<usize>,
    signer_pubs: Vec<Option<[u8; 32]>>,
    signer_seeds: Vec<Option<[u8; 32]>>,
    xpubs: Vec<Option<[u8; 32]>>,
}

fn obs_get<'o>(o: &'o Obs, label: &str) -> Option<&'o Vec<u8>> {
    o.0.iter().find(|(l, _)| *l == label).map(|(_, v)| v)
}

impl<'a> W<'a> {
    fn emit(&mut self, st: Step) -> Option<Obs> {
        let out = self.m.apply(&st);
        self.steps.push(st);
        match out {
            Out::Obs(o) => Some(o),
            Out::Skip => None,
        }
    }
    fn faulty(&mut self) -> bool {
        self.fault_pct > 0 && self.rng.below(100) < self.fault_pct
    }
    fn disp(&mut self) -> u8 {
        match self.disp_policy {
            4 => self.rng.below(4) as u8,
            p => p as u8,
        }
    }

    // ------------------------------------------------------------ SimNet
    fn post(&mut self, delay: u64, msg: Msg) {
        let id = self.msgs.len() as u64;
        self.msgs.push(Some(msg));
        self.heap.push(Reverse((self.now + delay, id)));
    }

    /// hand a message to the network: it may be dropped, duplicated, delayed past later messages
    fn send(&mut self, msg: Msg) {
        let base = 1 + self.rng.below(4);
        if self.faulty() {
            match self.rng.below(4) {
                0 => {
                    bump(&mut self.c, "net:drop");
                    return;
                }
                1 => {
                    bump(&mut self.c, "net:duplicate");
                    let d2 = base + 1 + self.rng.below(30);
                    self.post(base, msg.clone());
                    self.post(d2, msg);
                    return;
                }
                2 => {
                    bump(&mut self.c, "net:delay_reorder");
                    let d = base + 5 + self.rng.below(60);
                    self.post(d, msg);
                    return;
                }
                _ => {
                    bump(&mut self.c, "net:replay_later");
                    let d2 = 40 + self.rng.below(100);
                    self.post(base, msg.clone());
                    self.post(d2, msg);
                    return;
                }
            }
        }
        bump(&mut self.c, "net:delivered_plain");
        self.post(base, msg);
    }

    fn pump(&mut self, max_steps: usize) {
        while let Some(Reverse((t, id))) = self.heap.pop() {
            if self.steps.len() >= max_steps {
                break;
            }
            // discrete-event clock: jump to the next event
            self.now = self.now.max(t);
            let msg = match self.msgs[id as usize].clone() {
                Some(m) => m,
                None => continue,
            };
            self.deliver(msg);
        }
    }

    fn deliver(&mut self, msg: Msg) {
        match msg {
            Msg::Pub { from, to, bytes, honest } => {
                self.emit(Step::XDh { p: to, pk: B(bytes.to_vec()), peer: if honest { Some(from) } else { None } });
            }
            Msg::SignReq { s, m, mode, ctx } => {
                let ch = self.chunks();
                let o = self.emit(Step::Sign { s, m: B(m.clone()), mode, ctx: ctx.clone().map(B), ch });
                let sig = o.as_ref().and_then(|o| obs_get(o, "sig")).cloned();
                let key = self.signer_pubs[s as usize % 8];
                if let (Some(sig), Some(key)) = (sig, key) {
                    self.forward(key, m, sig, mode, ctx);
                }
            }
            Msg::Triple { mode, key, m, sig, ctx, chosen, hon } => {
                let (ch, d) = (self.chunks(), self.disp());
                let ksrc = match self.rng.below(8) {
                    0 => 2,
                    2 => 3,
                    1 if key.len() == 32 && Pt::decode(&arr32(&key)).map(|p| p.is_identity()).unwrap_or(false) => 1,
                    _ => 0,
                };
                self.emit(Step::Ver { mode, key: B(key), m: B(m), sig: B(sig), ctx: ctx.map(B), ch, chosen: chosen.map(|c| B(c.to_vec())), d, ksrc, hon });
            }
            Msg::Entry { q, key, m, sig } => {
                self.emit(Step::BQ { q, m: B(m), sig: B(sig), key: B(key) });
            }
            Msg::Flush { q } => self.flush(q, true),
        }
    }

    fn chunks(&mut self) -> Vec<u16> {
        match self.rng.below(5) {
            0 => vec![],
            1 => vec![1],
            2 => vec![0, 1, 127, 0, 129],
            3 => {
                let n = 1 + self.rng.below(4) as usize;
                (0..n).map(|_| self.rng.below(200) as u16).collect()
            }
            _ => vec![64, 64, 1, 63],
        }
    }

    // ------------------------------------------------------------ Ed25519 flows
    fn msg_len(&mut self) -> usize {
        let edges = [0usize, 0, 1, 2, 31, 32, 63, 64, 65, 111, 112, 113, 127, 128, 129, 255, 256];
        match self.rng.below(10) {
            0..=5 => edges[self.rng.below(edges.len() as u64) as usize],
            6..=8 => self.rng.below(300) as usize,
            _ => self.rng.below(if self.thorough { 4096 } else { 1200 }) as usize,
        }
    }

    fn ctx_choice(&mut self) -> Option<Vec<u8>> {
        let lens = [0usize, 0, 1, 31, 32, 254, 255, 255, 256, 300, 1000];
        if self.rng.chance(1, 4) {
            None
        } else {
            let n = lens[self.rng.below(lens.len() as u64) as usize];
            if n > 255 {
                bump(&mut self.c, "probe:context_longer_than_255");
            }
            if n == 255 {
                bump(&mut self.c, "probe:context_exactly_255");
            }
            Some(self.rng.bytes(n))
        }
    }

    fn rng_spec(&mut self) -> Rng {
        if self.faulty() {
            match self.rng.below(5) {
                4 => {
                    // a generator whose output is made of a few repeated machine words
                    bump(&mut self.c, "fault:rng_structured_words");
                    let mut v = dict::structured_words(&mut self.rng).to_vec();
                    v.extend_from_slice(&dict::structured_words(&mut self.rng));
                    Rng { b: B(v), mode: 3 }
                }
                0 => {
                    bump(&mut self.c, "fault:rng_stuck_zero");
                    Rng { b: B(vec![0]), mode: 1 }
                }
                1 => {
                    bump(&mut self.c, "fault:rng_stuck_ones");
                    Rng { b: B(vec![0xff]), mode: 2 }
                }
                2 => {
                    bump(&mut self.c, "fault:rng_short_period");
                    let n = 1 + self.rng.below(31) as usize;
                    Rng { b: B(self.rng.bytes(n)), mode: 3 }
                }
                _ => {
                    bump(&mut self.c, "fault:rng_repeated_block");
                    // same block for every party that draws this fault in this run
                    let mut r2 = Prng::new(self.disp_policy ^ 0x5eed);
                    Rng { b: B(r2.bytes(32)), mode: 3 }
                }
            }
        } else {
            let n = 32 + self.rng.below(33) as usize;
            Rng { b: B(self.rng.bytes(n)), mode: 0 }
        }
    }

    fn new_signer(&mut self, s: u8) {
        let how = self.rng.below(7) as u8;
        let seed = self.rng.arr32();
        let (b, rng): (Vec<u8>, Option<Rng>) = match how {
            0 => (vec![], Some(self.rng_spec())),
            1 | 3 => {
                let mut v = seed.to_vec();
                if how == 3 && self.faulty() {
                    bump(&mut self.c, "fault:truncate");
                    v.truncate(self.rng.below(32) as usize);
                }
                (v, None)
            }
            2 | 6 => {
                let mut v = seed.to_vec();
                v.extend_from_slice(&eddsa::public_key(&seed));
                if self.faulty() {
                    // key store returned a damaged record: a flipped bit in either half
                    bump(&mut self.c, "fault:keystore_bitflip");
                    let i = self.rng.below(512) as usize;
                    v[i / 8] ^= 1 << (i % 8);
                    if i >= 256 {
                        bump(&mut self.c, "probe:keypair_public_half_damaged");
                    }
                }
                (v, None)
            }
            _ => {
                let mut v = self.rng.bytes(64);
                if how == 5 && self.faulty() {
                    bump(&mut self.c, "fault:truncate");
                    v.truncate(self.rng.below(64) as usize);
                }
                (v, None)
            }
        };
        let o = self.emit(Step::SKey { s, how, b: B(b), rng });
        let pk = o.as_ref().and_then(|o| obs_get(o, "pub")).map(|v| arr32(v));
        let sd = o.as_ref().and_then(|o| obs_get(o, "seed")).map(|v| arr32(v));
        self.signer_pubs[s as usize % 8] = pk;
        self.signer_seeds[s as usize % 8] = sd;
    }

    /// a produced signature goes to verifiers: one undamaged path, one through the adversary, and a batch queue
    fn forward(&mut self, key: [u8; 32], m: Vec<u8>, sig: Vec<u8>, mode: u8, ctx: Option<Vec<u8>>) {
        if mode == 6 {
            // signed under the stub digest: a verifier using the same stub challenge accepts, SHA-512 verifiers decide by the model
            if let Some(c) = &ctx {
                if c.len() >= 128 {
                    self.send(Msg::Triple { mode: 7, key: key.to_vec(), m: m.clone(), sig: sig.clone(), ctx: None, chosen: Some(refmodel::arr64(&c[64..128])), hon: false });
                }
            }
            self.send(Msg::Triple { mode: 0, key: key.to_vec(), m, sig, ctx: None, chosen: None, hon: false });
            return;
        }
        let alt = mode >= 12;
        let prehashed = alt || !matches!(mode % 6, 0 | 1 | 4);
        let vmodes: &[u8] = if alt { &[12, 13, 14, 15] } else if prehashed { &[3, 4, 6, 8, 10] } else { &[0, 1, 2, 5, 7] };
        let vctx = if prehashed { Some(ctx.clone().unwrap_or_default()) } else { None };
        self.seen_triples.push((key.to_vec(), m.clone(), sig.clone()));
        // undamaged
        let vm = vmodes[self.rng.below(vmodes.len() as u64) as usize];
        let c2 = if vm == 10 && vctx.as_ref().map(|c| c.is_empty()).unwrap_or(false) && self.rng.coin() { None } else { vctx.clone() };
        self.send(Msg::Triple { mode: vm, key: key.to_vec(), m: m.clone(), sig: sig.clone(), ctx: c2, chosen: None, hon: false });
        // cross-protocol: a pure signature presented as prehashed and vice versa
        if self.rng.chance(1, 8) {
            bump(&mut self.c, "fault:cross_protocol");
            // (a signature over one message digest presented to a verifier using the other is cross-protocol too)
            let other: &[u8] = if alt { &[3, 4, 0] } else if prehashed { &[0, 2, 5, 12, 13] } else { &[3, 4, 6, 12] };
            let om = other[self.rng.below(other.len() as u64) as usize];
            self.send(Msg::Triple { mode: om, key: key.to_vec(), m: m.clone(), sig: sig.clone(), ctx: if prehashed { if om >= 3 && om != 5 { vctx.clone() } else { None } } else { Some(vec![]) }, chosen: None, hon: false });
        }
        // through the adversary
        if self.fault_pct > 0 && self.rng.chance(1, 2) {
            self.damaged_honest_ctx = false;
            let (k2, m2, s2, c2) = self.damage(key.to_vec(), m.clone(), sig.clone(), vctx.clone());
            let vm = vmodes[self.rng.below(vmodes.len() as u64) as usize];
            // only the context was touched: still an honest signature on this key and message (C08: any other context refuses it)
            let hon = self.damaged_honest_ctx && k2 == key.to_vec() && m2 == m && s2 == sig;
            self.send(Msg::Triple { mode: vm, key: k2, m: m2, sig: s2, ctx: c2, chosen: None, hon });
        }
        // batch path (pure Ed25519 only)
        if !prehashed && self.rng.chance(2, 3) {
            let q = self.rng.below(2) as u8;
            self.send(Msg::Entry { q, key: key.to_vec(), m, sig });
            if self.rng.chance(1, 4) {
                self.send(Msg::Flush { q });
            }
        }
    }

    /// single-field damage of an honest triple
    fn damage(&mut self, mut key: Vec<u8>, mut m: Vec<u8>, mut sig: Vec<u8>, mut ctx: Option<Vec<u8>>) -> (Vec<u8>, Vec<u8>, Vec<u8>, Option<Vec<u8>>) {
        match self.rng.below(12) {
            0 => {
                bump(&mut self.c, "fault:bitflip_key");
                let i = self.rng.below(256) as usize;
                key[i / 8] ^= 1 << (i % 8);
            }
            1 => {
                bump(&mut self.c, "fault:bitflip_msg");
                if m.is_empty() {
                    m.push(0);
                } else {
                    let i = self.rng.below(m.len() as u64 * 8) as usize;
                    m[i / 8] ^= 1 << (i % 8);
                }
            }
            2 => {
                bump(&mut self.c, "fault:bitflip_R");
                let i = self.rng.below(256) as usize;
                sig[i / 8] ^= 1 << (i % 8);
            }
            3 => {
                bump(&mut self.c, "fault:bitflip_S");
                let i = 256 + self.rng.below(256) as usize;
                sig[i / 8] ^= 1 << (i % 8);
            }
            4 => {
                bump(&mut self.c, "fault:S_plus_jl");
                let j = 1 + self.rng.below(15);
                let s = refmodel::U256::from_le_bytes(&arr32(&sig[32..]));
                let (jl, hi) = sc::l().mul_small(j);
                let (t, carry) = s.add_carry(&jl);
                if hi == 0 && !carry {
                    sig[32..].copy_from_slice(&t.to_le_bytes());
                    if t.to_le_bytes()[31] & 224 == 0 {
                        bump(&mut self.c, "probe:S_plus_l_below_2^253");
                    }
                }
            }
            5 => {
                bump(&mut self.c, "fault:other_key");
                let others: Vec<[u8; 32]> = self.signer_pubs.iter().flatten().cloned().collect();
                if !others.is_empty() {
                    key = others[self.rng.below(others.len() as u64) as usize].to_vec();
                }
            }
            6 if ctx.is_some() && self.rng.chance(1, 4) => {
                // the honest context extended (shared prefix), possibly past the documented 255 bytes: another context
                bump(&mut self.c, "fault:context_extended");
                let mut c = ctx.clone().unwrap();
                let extra = [1usize, 2, 32, 256, 300][self.rng.below(5) as usize];
                let tail = self.rng.bytes(extra);
                c.extend_from_slice(&tail);
                ctx = Some(c);
                self.damaged_honest_ctx = true;
            }
            6 if self.rng.chance(1, 3) => {
                // a context longer than the documented 255 bytes handed to a verifier
                bump(&mut self.c, "fault:context_overlong");
                let n = [256usize, 257, 286, 287, 300, 400, 1000][self.rng.below(7) as usize];
                ctx = Some(self.rng.bytes(n));
                self.damaged_honest_ctx = true;
            }
            6 => {
                bump(&mut self.c, "fault:context_changed");
                ctx = match ctx {
                    Some(c) if !c.is_empty() => {
                        let mut c2 = c.clone();
                        c2[0] ^= 1;
                        Some(c2)
                    }
                    Some(_) => Some(vec![0]),
                    None => None,
                };
                if ctx.is_none() {
                    m.push(1);
                }
            }
            7 => {
                bump(&mut self.c, "fault:swap_fields");
                if let Some((_, _, s2)) = self.seen_triples.get(self.rng.below(self.seen_triples.len().max(1) as u64) as usize).cloned() {
                    if self.rng.coin() {
                        sig[..32].copy_from_slice(&s2[..32]);
                    } else {
                        sig[32..].copy_from_slice(&s2[32..]);
                    }
                }
            }
            8 => {
                bump(&mut self.c, "fault:truncate");
                if self.rng.coin() {
                    sig.truncate(self.rng.below(64) as usize);
                } else {
                    key.truncate(self.rng.below(32) as usize);
                }
            }
            9 => {
                bump(&mut self.c, "fault:extend");
                if self.rng.coin() {
                    sig.push(0);
                } else {
                    key.push(0);
                }
            }
            10 => {
                bump(&mut self.c, "fault:key_plus_torsion");
                if let Some(a) = Pt::decode(&arr32(&key)) {
                    key = a.add(&ed::torsion()[1 + self.rng.below(7) as usize]).encode().to_vec();
                }
            }
            _ => {
                bump(&mut self.c, "fault:S_top_bits");
                sig[63] |= [0x20u8, 0x40, 0x80, 0xe0][self.rng.below(4) as usize];
            }
        }
        (key, m, sig, ctx)
    }

    /// Byzantine constructions aimed at the accept side of the small-order / mixed-order classes.
    /// Whatever comes out, the reference predicate decides the expected verdict.
    fn byzantine(&mut self) {
        let t = ed::torsion();
        let b = ed::basepoint();
        let kind = self.rng.below(8);
        let prehashed = if kind == 7 { self.rng.coin() } else { self.rng.chance(1, 4) };
        let cl = self.rng.below(4) as usize;
        let ctx: Option<Vec<u8>> = if prehashed { Some(self.rng.bytes(cl)) } else { None };
        let mlen = self.rng.below(40) as usize;
        let mut m = self.rng.bytes(mlen);
        let seed = self.rng.arr32();
        let (a_cl, prefix) = eddsa::expand(&seed);
        let a_sc = refmodel::Sc::from_bytes_mod_order(&a_cl);
        let a_pt = b.mul_le(&a_cl);
        let alt = prehashed && self.rng.chance(1, 3);
        let hash_in = |m: &Vec<u8>| -> Vec<u8> {
            if alt {
                eddsa::sha512(&[m, &[crate::env::ALT_SUFFIX]]).to_vec()
            } else if prehashed {
                eddsa::sha512(&[m]).to_vec()
            } else {
                m.clone()
            }
        };
        let dom: Vec<u8> = match &ctx {
            Some(c) => {
                let mut v = eddsa::DOM2_PREFIX.to_vec();
                v.push(1);
                v.push(c.len() as u8);
                v.extend_from_slice(c);
                v
            }
            None => vec![],
        };
        let challenge = |rb: &[u8; 32], key: &[u8; 32], hm: &[u8]| -> refmodel::Sc { refmodel::Sc::from_wide(&RealSha512.hash(&[&dom, rb, key, hm])) };
        let (key, sig): ([u8; 32], [u8; 64]) = match kind {
            0 | 1 => {
                // small-order key in one of its encodings, R = [r]B - T', S = r: accepted iff [k]A = T'
                bump(&mut self.c, "fault:byz_small_order_key");
                let j = self.rng.below(8) as usize;
                let mut key = t[j].encode();
                if t[j].y.0.lt(&refmodel::U256::from_u64(19)) && self.rng.coin() {
                    bump(&mut self.c, "fault:byz_noncanonical_key");
                    key = dict::p_plus(t[j].y.0 .0[0]);
                    if t[j].x.is_negative() {
                        key[31] |= 0x80;
                    }
                } else if t[j].x.is_zero() && self.rng.coin() {
                    key[31] |= 0x80;
                }
                let mut out = ([0u8; 32], [0u8; 64]);
                let zero_r = self.rng.chance(1, 4);
                let s_is_l = zero_r && self.rng.coin();
                // S given as a structured non-canonical value S' >= l (R built from S' mod l): must be rejected
                let s_struct: Option<[u8; 32]> = if !zero_r && self.rng.chance(1, 3) {
                    let b = dict::near_l_structured(&mut self.rng);
                    if !refmodel::Sc::is_canonical_bytes(&b) {
                        bump(&mut self.c, "fault:byz_S_structured_noncanonical");
                        Some(b)
                    } else {
                        None
                    }
                } else {
                    None
                };
                if zero_r {
                    bump(&mut self.c, "fault:byz_S_zero");
                }
                for _try in 0..24 {
                    let r = if zero_r {
                        refmodel::Sc::ZERO
                    } else if let Some(b) = &s_struct {
                        refmodel::Sc::from_bytes_mod_order(b)
                    } else {
                        refmodel::Sc::from_bytes_mod_order(&self.rng.arr32())
                    };
                    let guess = t[self.rng.below(8) as usize];
                    let rp = b.mul_le(&r.to_bytes()).sub(&guess);
                    let rb = rp.encode();
                    let k = challenge(&rb, &key, &hash_in(&m));
                    let mut sg = [0u8; 64];
                    sg[..32].copy_from_slice(&rb);
                    sg[32..].copy_from_slice(&r.to_bytes());
                    if let Some(b) = &s_struct {
                        sg[32..].copy_from_slice(b);
                    }
                    if s_is_l {
                        // S = l exactly: the smallest non-canonical S, congruent to the S = 0 that satisfies the equation
                        sg[32..].copy_from_slice(&sc::l().to_le_bytes());
                    }
                    out = (key, sg);
                    if t[j].mul_le(&k.to_bytes()) == guess {
                        bump(&mut self.c, if s_is_l { "probe:byz_S_equals_l_equation_holds" } else { "probe:byz_small_order_equation_holds" });
                        break;
                    }
                    if zero_r || s_struct.is_some() {
                        m.push(self.rng.below(256) as u8);
                    }
                }
                out
            }
            2 | 3 => {
                // mixed-order key A' = A + T signed with the honest secret: accepted iff [k]T = 0
                bump(&mut self.c, "fault:byz_mixed_order_key");
                let tj = t[1 + self.rng.below(7) as usize];
                let key = a_pt.add(&tj).encode();
                let mut out = (key, [0u8; 64]);
                for _try in 0..16 {
                    let mut h = RealSha512;
                    let sg = eddsa::sign_expanded(&mut h, &a_sc, &prefix, &key, &hash_in(&m), ctx.as_deref());
                    out = (key, sg);
                    let k = challenge(&arr32(&sg[..32]), &key, &hash_in(&m));
                    if tj.mul_le(&k.to_bytes()).is_identity() {
                        bump(&mut self.c, "probe:byz_mixed_order_k_kills_torsion");
                        break;
                    }
                    m.push(self.rng.below(256) as u8);
                }
                out
            }
            4 => {
                // R carries a torsion component; the key is honest or mixed so that it may cancel
                bump(&mut self.c, "fault:byz_torsion_R");
                let mixed = self.rng.coin();
                let t2 = t[1 + self.rng.below(7) as usize];
                let key_pt = if mixed { a_pt.add(&t2) } else { a_pt };
                let key = key_pt.encode();
                let mut out = (key, [0u8; 64]);
                for _try in 0..16 {
                    let r = refmodel::Sc::from_bytes_mod_order(&self.rng.arr32());
                    let t1 = t[1 + self.rng.below(7) as usize];
                    let rp = b.mul_le(&r.to_bytes()).add(&t1);
                    let rb = rp.encode();
                    let k = challenge(&rb, &key, &hash_in(&m));
                    let s = k.mul(&a_sc).add(&r);
                    let mut sg = [0u8; 64];
                    sg[..32].copy_from_slice(&rb);
                    sg[32..].copy_from_slice(&s.to_bytes());
                    out = (key, sg);
                    // [S]B - [k]A' = [r]B - [k]T2 ; equals R' iff -[k]T2 = T1
                    if mixed && t2.mul_le(&k.to_bytes()).neg() == t1 {
                        bump(&mut self.c, "probe:byz_torsion_R_cancelled_by_key");
                        break;
                    }
                }
                out
            }
            5 => {
                // non-canonical R encodings: never acceptable because the recomputed R is canonical
                bump(&mut self.c, "fault:byz_noncanonical_R");
                let j = [0usize, 2, 4, 6][self.rng.below(4) as usize];
                let key = t[self.rng.below(8) as usize].encode();
                let mut rb = if t[j].y.0.lt(&refmodel::U256::from_u64(19)) { dict::p_plus(t[j].y.0 .0[0]) } else { t[j].encode() };
                if t[j].x.is_zero() && self.rng.coin() {
                    rb[31] |= 0x80;
                }
                let mut sg = [0u8; 64];
                sg[..32].copy_from_slice(&rb);
                (key, sg)
            }
            7 => {
                // R of small order with everything else consistent: R = identity under the honest key (S = k a), or R = T1
                // under the mixed key A + T2 when -[k]T2 = T1. The plain verifiers accept, the strict ones must refuse,
                // through every strict entry point (pure and prehashed)
                bump(&mut self.c, "fault:byz_small_order_R_equation_holds");
                let mixed = self.rng.coin();
                let t2 = t[1 + self.rng.below(7) as usize];
                let key = if mixed { a_pt.add(&t2).encode() } else { a_pt.encode() };
                let mut out = (key, [0u8; 64]);
                for _try in 0..24 {
                    let t1 = if mixed { t[self.rng.below(8) as usize] } else { t[0] };
                    let mut rb = t1.encode();
                    if !mixed && self.rng.chance(1, 6) {
                        // the identity in its sign-bit alias: not the canonical R, so never acceptable
                        rb[31] |= 0x80;
                    }
                    let k = challenge(&rb, &key, &hash_in(&m));
                    let mut sg = [0u8; 64];
                    sg[..32].copy_from_slice(&rb);
                    sg[32..].copy_from_slice(&k.mul(&a_sc).to_bytes());
                    out = (key, sg);
                    if !mixed || t2.mul_le(&k.to_bytes()).neg() == t1 {
                        bump(&mut self.c, "probe:byz_small_order_R_accepted_by_plain_verifier");
                        break;
                    }
                    m.push(self.rng.below(256) as u8);
                }
                out
            }
            _ => {
                // honest signature, then S shifted by a multiple of l (legacy builds accept S + l below 2^253)
                bump(&mut self.c, "fault:byz_S_plus_l");
                let key = a_pt.encode();
                let mut sg = eddsa::sign_expanded(&mut RealSha512, &a_sc, &prefix, &key, &hash_in(&m), ctx.as_deref());
                let s = refmodel::U256::from_le_bytes(&arr32(&sg[32..]));
                let jmax = if self.rng.coin() { 1 } else { 15 };
                let j = 1 + self.rng.below(jmax);
                let (jl, hi) = sc::l().mul_small(j);
                let (tt, carry) = s.add_carry(&jl);
                if hi == 0 && !carry {
                    sg[32..].copy_from_slice(&tt.to_le_bytes());
                    if tt.to_le_bytes()[31] & 224 == 0 {
                        bump(&mut self.c, "probe:S_plus_l_below_2^253");
                    }
                }
                (key, sg)
            }
        };
        // deliver to both a lenient and a strict verifier (and the hazmat / wrapper paths)
        let modes: &[u8] = if alt { &[12, 13, 14, 15] } else if prehashed { &[3, 4, 6, 8] } else { &[0, 2, 5, 1] };
        let n = 2 + self.rng.below(2) as usize;
        for i in 0..n {
            let mode = modes[i % modes.len()];
            self.send(Msg::Triple { mode, key: key.to_vec(), m: m.clone(), sig: sig.to_vec(), ctx: ctx.clone(), chosen: None, hon: false });
        }
        // ChosenDigest: the adversary picks the challenge outright (digest-generic hazmat API only)
        if !prehashed && self.rng.chance(1, 3) {
            bump(&mut self.c, "fault:byz_chosen_challenge");
            let mut chosen = [0u8; 64];
            let k = match self.rng.below(3) {
                0 => 0u8,
                1 => 8,
                _ => 1,
            };
            chosen[0] = k;
            // S = r, R = [r]B - [k]A: accepted by construction for any decodable key
            if let Some(a) = Pt::decode(&key) {
                let r = if self.rng.chance(1, 3) { refmodel::Sc::ZERO } else { refmodel::Sc::from_bytes_mod_order(&self.rng.arr32()) };
                let rp = b.mul_le(&r.to_bytes()).sub(&a.mul_le(&[k]));
                let mut sg = [0u8; 64];
                sg[..32].copy_from_slice(&rp.encode());
                sg[32..].copy_from_slice(&r.to_bytes());
                if self.rng.coin() {
                    self.send(Msg::Triple { mode: 7, key: key.to_vec(), m: m.clone(), sig: sg.to_vec(), ctx: None, chosen: Some(chosen), hon: false });
                } else {
                    let cx = self.rng.bytes(3);
                    self.send(Msg::Triple { mode: 11, key: key.to_vec(), m: m.clone(), sig: sg.to_vec(), ctx: Some(cx), chosen: Some(chosen), hon: false });
                }
            }
        }
        if !prehashed && self.rng.chance(1, 3) {
            let q = self.rng.below(2) as u8;
            self.send(Msg::Entry { q, key: key.to_vec(), m, sig: sig.to_vec() });
        }
    }

    // ------------------------------------------------------------ batch flows
    fn flush(&mut self, q: u8, clear: bool) {
        let d = self.disp();
        let var = self.rng.below(6) as u8;
        let n = 64u16;
        let arg: Vec<u16> = match var {
            2 => {
                let k = self.rng.below(12) as usize;
                (0..k).map(|_| self.rng.below(400) as u16).collect()
            }
            3 => vec![self.rng.below(400) as u16],
            5 => {
                bump(&mut self.c, "fault:batch_adaptive_S_shift");
                vec![self.rng.below(1024) as u16, self.rng.below(1024) as u16]
            }
            4 => {
                bump(&mut self.c, "fault:batch_mismatched_lengths");
                // lengths biased to the edges: empty slices, one short, full
                (0..3)
                    .map(|_| match self.rng.below(4) {
                        0 => 0,
                        1 => 1,
                        2 => 65535,
                        _ => self.rng.below(n as u64) as u16,
                    })
                    .collect()
            }
            _ => vec![],
        };
        bump(&mut self.c, &format!("probe:batch_flush_variant_{}", var));
        self.emit(Step::BFlush { q, var, arg, d, clear });
    }

    fn batch_scenario(&mut self) {
        let sizes_q: [(usize, u32); 14] = [(0, 3), (1, 6), (2, 8), (3, 8), (5, 8), (8, 8), (16, 6), (32, 4), (64, 3), (93, 1), (94, 2), (95, 2), (96, 1), (300, 2)];
        let sizes_t: [(usize, u32); 5] = [(128, 2), (249, 1), (250, 1), (399, 1), (400, 1)];
        let mut sizes = sizes_q.to_vec();
        if self.thorough {
            sizes.extend_from_slice(&sizes_t);
        }
        let w: Vec<u32> = sizes.iter().map(|x| x.1).collect();
        let mut n = sizes[self.rng.weighted(&w)].0;
        if self.rng.chance(1, if self.thorough { 60 } else { 400 }) {
            // larger than anything the repository's tests use: 1024 signatures = 2049 multiscalar terms
            n = 1024;
        }
        if self.rng.chance(1, if self.thorough { 100 } else { 300 }) {
            // beyond 4096 entries (an implementation that works in blocks must not lose the tail)
            n = 4100;
        }
        if self.rng.chance(1, if self.thorough { 100 } else { 250 }) {
            // beyond 8192 and 16384 entries (recursive splitting, 2^15-term multiscalar inputs)
            n = if self.rng.chance(1, 3) { 16400 } else { 8200 };
        }
        if self.rng.chance(1, if self.thorough { 300 } else { 900 }) {
            // 2^16 multiscalar terms and more
            n = 33000;
        }
        if let Some(big) = self.force_big.take() {
            n = big;
        }
        bump(&mut self.c, &format!("probe:batch_n={}", n));
        let q = 2 + self.rng.below(2) as u8;
        let nsign = 1 + self.rng.below(5) as usize;
        let seeds: Vec<[u8; 32]> = (0..nsign).map(|_| self.rng.arr32()).collect();
        let pubs: Vec<[u8; 32]> = seeds.iter().map(eddsa::public_key).collect();
        let mut entries: Vec<(Vec<u8>, Vec<u8>, Vec<u8>)> = Vec::with_capacity(n);
        // very large batches draw their honest entries from a pool of distinct triples (the batch coefficients still
        // differ per position); what such sizes probe is the implementation's handling of length, not of content
        let pool_n = if n > 1024 { 48 } else { n };
        for _ in 0..pool_n {
            let i = self.rng.below(nsign as u64) as usize;
            let ml = self.rng.below(48) as usize;
            let m = self.rng.bytes(ml);
            let sig = eddsa::sign(&seeds[i], &m);
            entries.push((pubs[i].to_vec(), m, sig.to_vec()));
        }
        while entries.len() < n {
            let e = entries[self.rng.below(pool_n as u64) as usize].clone();
            entries.push(e);
        }
        // exotic but valid entries, inside the property's domain: nonce r = 0 (R is the identity encoding) and
        // the identity as key (any R = [S]B verifies); single and batch verification must both accept them
        if n > 0 && self.rng.chance(1, 4) {
            let pos = match self.rng.below(3) {
                0 => 0,
                1 => n - 1,
                _ => self.rng.below(n as u64) as usize,
            };
            let i = self.rng.below(nsign as u64) as usize;
            if self.rng.coin() {
                bump(&mut self.c, "fault:batch_valid_signature_with_identity_R");
                let (a_cl, _) = eddsa::expand(&seeds[i]);
                let a_sc = refmodel::Sc::from_bytes_mod_order(&a_cl);
                let rb = Pt::IDENTITY.encode();
                let k = refmodel::Sc::from_wide(&RealSha512.hash(&[&rb, &pubs[i], &entries[pos].1]));
                let mut sg = [0u8; 64];
                sg[..32].copy_from_slice(&rb);
                sg[32..].copy_from_slice(&k.mul(&a_sc).to_bytes());
                entries[pos].0 = pubs[i].to_vec();
                entries[pos].2 = sg.to_vec();
            } else {
                bump(&mut self.c, "fault:batch_valid_signature_under_identity_key");
                let sv = refmodel::Sc::from_bytes_mod_order(&self.rng.arr32());
                let mut sg = [0u8; 64];
                sg[..32].copy_from_slice(&ed::basepoint().mul_le(&sv.to_bytes()).encode());
                sg[32..].copy_from_slice(&sv.to_bytes());
                entries[pos].0 = Pt::IDENTITY.encode().to_vec();
                entries[pos].2 = sg.to_vec();
            }
        }
        // adjacent entries whose keys are the same point in different accepted encodings (only x = 0 points and y < 19
        // have more than one): each is valid alone, so the batch's verdict is unchanged by them
        if n >= 2 && self.rng.chance(1, 6) {
            bump(&mut self.c, "fault:batch_adjacent_keys_same_point_other_encoding");
            let run = 2 + self.rng.below(3) as usize;
            let pos = self.rng.below((n - run.min(n) + 1) as u64) as usize;
            let second = self.rng.chance(1, 3);
            for (j, e) in entries.iter_mut().skip(pos).take(run).enumerate() {
                // identity: y = 1 or y = p + 1, sign bit free; order-2 point (0,-1): sign bit free
                let mut key = if second { ed::torsion()[4].encode() } else if (j / 2) % 2 == 0 { Pt::IDENTITY.encode() } else { dict::p_plus(1) };
                if j % 2 == 1 {
                    key[31] |= 0x80;
                }
                let tp = if second { ed::torsion()[4] } else { Pt::IDENTITY };
                // R = [r]B, S = r verifies when [k]A = 0: always for the identity, for even k under (0,-1)
                for _try in 0..16 {
                    let sv = refmodel::Sc::from_bytes_mod_order(&self.rng.arr32());
                    let rb = ed::basepoint().mul_le(&sv.to_bytes()).encode();
                    let k = refmodel::Sc::from_wide(&RealSha512.hash(&[&rb, &key, &e.1]));
                    let mut sg = [0u8; 64];
                    sg[..32].copy_from_slice(&rb);
                    sg[32..].copy_from_slice(&sv.to_bytes());
                    e.0 = key.to_vec();
                    e.2 = sg.to_vec();
                    if tp.mul_le(&k.to_bytes()).is_identity() {
                        break;
                    }
                }
            }
        }
        // long batches: two entries a whole block apart with only their S halves swapped (each then fails alone; an
        // implementation that draws its coefficients block-wise must not give them the same coefficient)
        let block_swap = n > 256 && self.rng.chance(1, 3);
        if block_swap {
            let dists: Vec<usize> = [256usize, 512, 1024, 2048, 4096, 8192, 16384, 32768].iter().cloned().filter(|d| *d < n).collect();
            let dist = dists[self.rng.below(dists.len() as u64) as usize];
            let pos = self.rng.below((n - dist) as u64) as usize;
            bump(&mut self.c, "fault:batch_S_halves_swapped_block_distance");
            let (a, b) = (entries[pos].2[32..].to_vec(), entries[pos + dist].2[32..].to_vec());
            if a != b {
                entries[pos].2[32..].copy_from_slice(&b);
                entries[pos + dist].2[32..].copy_from_slice(&a);
            }
        }
        // corruption: most stay inside the property's domain
        let big_tail = !block_swap && n > 4096 && self.rng.coin();
        if big_tail {
            // a bad entry in the last few positions of a very large batch
            bump(&mut self.c, "fault:batch_msg_changed_in_tail");
            let pos = n - 1 - self.rng.below(4) as usize;
            entries[pos].1.push(9);
        }
        if n > 0 && !big_tail && !block_swap && self.faulty() {
            let pos = match self.rng.below(4) {
                0 => 0,
                1 => n - 1,
                2 => n / 2,
                _ => self.rng.below(n as u64) as usize,
            };
            // in the Pippenger regime a dropped term is only visible when everything else balances: favour the crafted-S case
            let kind = if n >= 95 && self.rng.chance(1, 4) { 12 } else { self.rng.below(14) };
            match kind {
                13 => {
                    // a second submission of another entry's (R, key, message) with a different canonical S: entries
                    // that hash alike are not the same signature
                    bump(&mut self.c, "fault:batch_resubmission_with_other_S");
                    let other = (pos + 1 + self.rng.below(n.max(2) as u64 - 1) as usize) % n;
                    if other != pos {
                        let src = entries[other].clone();
                        entries[pos] = src;
                        let s = if self.rng.coin() {
                            refmodel::Sc::from_bytes_mod_order(&self.rng.arr32())
                        } else {
                            refmodel::Sc::from_bytes_mod_order(&arr32(&entries[pos].2[32..])).add(&refmodel::Sc::ONE)
                        };
                        entries[pos].2[32..].copy_from_slice(&s.to_bytes());
                    }
                }
                11 => {
                    // two cooperating entries: only the S halves swapped, so the S terms still sum to the honest total
                    bump(&mut self.c, "fault:batch_S_halves_swapped");
                    let mut other = (pos + 1 + self.rng.below(n.max(2) as u64 - 1) as usize) % n;
                    if self.rng.coin() {
                        // partner at a structured distance (block sizes an implementation might use)
                        let dist = [1usize, 2, 8, 16, 32, 64, 128, 256, 512][self.rng.below(9) as usize];
                        if pos + dist < n {
                            other = pos + dist;
                        } else if pos >= dist {
                            other = pos - dist;
                        }
                    }
                    if other != pos {
                        let (a, b) = (entries[pos].2[32..].to_vec(), entries[other].2[32..].to_vec());
                        entries[pos].2[32..].copy_from_slice(&b);
                        entries[other].2[32..].copy_from_slice(&a);
                    }
                }
                12 => {
                    // undecodable R with S crafted by the key owner so that everything but R's term balances
                    bump(&mut self.c, "fault:batch_undecodable_R_crafted_S");
                    let i = self.rng.below(nsign as u64) as usize;
                    let (a_cl, _) = eddsa::expand(&seeds[i]);
                    let a_sc = refmodel::Sc::from_bytes_mod_order(&a_cl);
                    let rb = loop {
                        let b = self.rng.arr32();
                        if Pt::decode(&b).is_none() {
                            break b;
                        }
                    };
                    let k = refmodel::Sc::from_wide(&RealSha512.hash(&[&rb, &pubs[i], &entries[pos].1]));
                    let s = k.mul(&a_sc);
                    entries[pos].0 = pubs[i].to_vec();
                    entries[pos].2[..32].copy_from_slice(&rb);
                    entries[pos].2[32..].copy_from_slice(&s.to_bytes());
                }
                0 | 1 => {
                    bump(&mut self.c, "fault:batch_msg_changed");
                    entries[pos].1.push(7);
                }
                2 => {
                    bump(&mut self.c, "fault:batch_S_replaced_canonical");
                    let s = refmodel::Sc::from_bytes_mod_order(&self.rng.arr32()).to_bytes();
                    entries[pos].2[32..].copy_from_slice(&s);
                }
                3 => {
                    bump(&mut self.c, "fault:batch_R_replaced_honest");
                    let r = ed::basepoint().mul_le(&refmodel::Sc::from_bytes_mod_order(&self.rng.arr32()).to_bytes()).encode();
                    entries[pos].2[..32].copy_from_slice(&r);
                }
                4 => {
                    bump(&mut self.c, "fault:batch_key_replaced_honest");
                    let k = eddsa::public_key(&self.rng.arr32());
                    entries[pos].0 = k.to_vec();
                }
                5 => {
                    bump(&mut self.c, "fault:batch_sigs_swapped");
                    let other = self.rng.below(n as u64) as usize;
                    let (a, b) = (entries[pos].2.clone(), entries[other].2.clone());
                    entries[pos].2 = b;
                    entries[other].2 = a;
                }
                6 => {
                    bump(&mut self.c, "fault:bitflip_R");
                    let i = self.rng.below(256) as usize;
                    entries[pos].2[i / 8] ^= 1 << (i % 8);
                }
                7 => {
                    bump(&mut self.c, "fault:S_plus_jl");
                    let s = refmodel::U256::from_le_bytes(&arr32(&entries[pos].2[32..]));
                    // S + j l: j = 1 stays below 2^253 (what legacy builds accept), larger j set the top three bits
                    let j = [1u64, 1, 2, 7, 8, 15][self.rng.below(6) as usize];
                    let (jl, hi) = sc::l().mul_small(j);
                    let (t, carry) = s.add_carry(&jl);
                    if hi == 0 && !carry {
                        entries[pos].2[32..].copy_from_slice(&t.to_le_bytes());
                    }
                }
                8 => {
                    bump(&mut self.c, "fault:batch_undecodable_R");
                    loop {
                        let b = self.rng.arr32();
                        if Pt::decode(&b).is_none() {
                            entries[pos].2[..32].copy_from_slice(&b);
                            break;
                        }
                    }
                }
                9 => {
                    bump(&mut self.c, "fault:key_plus_torsion");
                    if let Some(a) = Pt::decode(&arr32(&entries[pos].0)) {
                        entries[pos].0 = a.add(&ed::torsion()[1 + self.rng.below(7) as usize]).encode().to_vec();
                    }
                }
                _ => {
                    bump(&mut self.c, "fault:byz_small_order_key");
                    entries[pos].0 = ed::torsion()[self.rng.below(8) as usize].encode().to_vec();
                }
            }
        }
        for (key, m, sig) in entries {
            // large batches are handed over directly; small ones travel the lossy network
            if n <= 16 {
                self.send(Msg::Entry { q, key, m, sig });
            } else {
                self.post(1, Msg::Entry { q, key, m, sig });
            }
        }
        self.pump(usize::MAX);
        let nfl = 1 + self.rng.below(3);
        for i in 0..nfl {
            self.flush(q, i + 1 == nfl);
        }
    }

    // ------------------------------------------------------------ X25519 flows
    fn x_scenario(&mut self) {
        let np = 2 + self.rng.below(3) as u8;
        for p in 0..np {
            let fl = self.rng.below(7) as u8;
            let rng = self.rng_spec();
            let secret = arr32(&crate::env::rng_prefix(&rng.b.0, 32));
            let o = self.emit(Step::XKey { p, fl, rng });
            self.xpubs[p as usize] = o.as_ref().and_then(|o| obs_get(o, "pub")).map(|v| arr32(v));
            if fl != 6 && o.is_some() && self.rng.chance(1, 6) {
                // a peer value chosen (with knowledge the adversary would not have, but the simulator does) so that the
                // shared secret comes out as a given word-structured value: nothing about a secret's bit pattern may matter
                let k = refmodel::Sc::from_bytes_mod_order(&sc::clamp(&secret));
                for _try in 0..48 {
                    let mut target = dict::structured_words(&mut self.rng);
                    if self.rng.chance(1, 3) {
                        // a small shared secret: the encoder then has to canonicalise a barely-reduced product
                        let bits = [5u32, 8, 16, 32, 51, 57, 64][self.rng.below(7) as usize];
                        let v = self.rng.next() & (u64::MAX >> (64 - bits));
                        target = [0u8; 32];
                        target[..8].copy_from_slice(&v.to_le_bytes());
                    }
                    target[31] &= 0x7f;
                    let pt = match refmodel::x25519::to_edwards(&target, 0) {
                        Some(pt) => pt,
                        None => continue,
                    };
                    if pt.is_identity() || !pt.mul_u256(&sc::l()).is_identity() || k == refmodel::Sc::ZERO {
                        continue;
                    }
                    let q = pt.mul_le(&k.inv().to_bytes());
                    bump(&mut self.c, "fault:x_peer_crafted_for_structured_shared_secret");
                    self.send(Msg::Pub { from: 7, to: p, bytes: q.to_montgomery_u().to_bytes(), honest: false });
                    break;
                }
            }
            bump(&mut self.c, &format!("probe:x_flavour_{}", fl));
        }
        for p in 0..np {
            for q in 0..np {
                if p == q {
                    continue;
                }
                if let Some(pk) = self.xpubs[p as usize] {
                    let faulty = self.faulty() && self.rng.coin();
                    let bytes = dict::montgomery_wire(&mut self.rng, pk, faulty, &mut self.c);
                    self.send(Msg::Pub { from: p, to: q, bytes, honest: bytes == pk });
                }
            }
        }
    }

    fn montgomery_extras(&mut self) {
        let u_hon = {
            let p = dict::random_point(&mut self.rng);
            p.to_montgomery_u().to_bytes()
        };
        let faulty = self.faulty() || self.rng.chance(1, 3);
        let u = dict::montgomery_wire(&mut self.rng, u_hon, faulty, &mut self.c);
        match self.rng.below(8) {
            7 => {
                let s = dict::scalar(&mut self.rng, true, &mut self.c);
                self.emit(Step::MBase { s });
            }
            0 => {
                let k = self.rng.arr32();
                self.emit(Step::XRaw { k: B(k.to_vec()), u: B(u.to_vec()) });
            }
            1 => {
                let s = dict::scalar(&mut self.rng, true, &mut self.c);
                self.emit(Step::MMul { u: B(u.to_vec()), s });
            }
            2 => {
                let nbytes = if self.rng.chance(1, 6) { 64 + self.rng.below(64) as usize } else { self.rng.below(40) as usize };
                if nbytes > 64 {
                    bump(&mut self.c, "probe:ladder_bit_string_longer_than_512");
                }
                let mut bits = self.rng.bytes(nbytes);
                match self.rng.below(4) {
                    0 => bits.iter_mut().for_each(|b| *b = 0xff),
                    1 => {
                        // leading zeros
                        for b in bits.iter_mut().take(nbytes / 2) {
                            *b = 0
                        }
                    }
                    _ => {}
                }
                let n = if nbytes == 0 { 0 } else { self.rng.below(nbytes as u64 * 8 + 1) as u16 };
                bump(&mut self.c, if n == 0 { "probe:ladder_zero_bits" } else { "probe:ladder_bits" });
                self.emit(Step::MBits { u: B(u.to_vec()), bits: B(bits), n });
            }
            3 => {
                let sign = if self.rng.chance(1, 4) { self.rng.below(256) as u8 } else { self.rng.below(2) as u8 };
                self.emit(Step::MToEd { u: B(u.to_vec()), sign });
            }
            4 => {
                // equality / hashing modulo p: a value against its non-canonical twin, or an unrelated one
                let a = u;
                let b = match self.rng.below(3) {
                    0 => {
                        let f = refmodel::fp::Fp::from_bytes(&a);
                        let (t, carry) = f.0.add_carry(&refmodel::fp::P);
                        if !carry && t.to_le_bytes()[31] & 0x80 == 0 {
                            bump(&mut self.c, "probe:montgomery_noncanonical_twin");
                            t.to_le_bytes()
                        } else {
                            let mut x = a;
                            x[31] ^= 0x80;
                            x
                        }
                    }
                    1 => {
                        let mut x = a;
                        x[31] ^= 0x80;
                        x
                    }
                    _ => self.rng.arr32(),
                };
                self.emit(Step::MEq { a: B(a.to_vec()), b: B(b.to_vec()) });
            }
            5 => {
                // Edwards -> Montgomery on a wire point (possibly Byzantine), then back
                let faulty = self.faulty();
                let bytes = dict::edwards_wire(&mut self.rng, None, faulty, &mut self.c);
                if bytes.len() == 32 {
                    self.emit(Step::Dec { g: 0, dst: 0, b: B(bytes), via: 0 });
                    self.emit(Step::ToMont { a: 0 });
                }
            }
            _ => {
                let k = self.rng.arr32();
                let d = self.disp();
                let rp = dict::random_point(&mut self.rng).encode().to_vec();
                self.emit(Step::Dec { g: 0, dst: 1, b: B(rp), via: 0 });
                let a = if self.rng.coin() { Some(1) } else { None };
                self.emit(Step::Clamp { dst: 2, a, k: B(k.to_vec()), d });
                self.emit(Step::ToMont { a: 2 });
            }
        }
    }

    // ------------------------------------------------------------ total decoders (C15)
    fn decoders(&mut self) {
        if self.rng.chance(1, 4) {
            // point decoders fed from slices of any length (and the Ristretto one-way map)
            let g = self.rng.below(2) as u8;
            let faulty = self.faulty() || self.rng.coin();
            let bytes = if g == 0 {
                dict::edwards_wire(&mut self.rng, None, faulty, &mut self.c)
            } else {
                dict::ristretto_wire(&mut self.rng, None, faulty, &mut self.c)
            };
            let mut bytes = bytes;
            match self.rng.below(4) {
                0 => {
                    bump(&mut self.c, "fault:truncate");
                    let n = self.rng.below(bytes.len() as u64 + 1) as usize;
                    bytes.truncate(n);
                }
                1 => {
                    bump(&mut self.c, "fault:extend");
                    let n = 1 + self.rng.below(40) as usize;
                    let extra = self.rng.bytes(n);
                    bytes.extend(extra);
                }
                _ => {}
            }
            let via = if bytes.len() == 32 { self.rng.below(6) as u8 } else { 1 + 2 * self.rng.below(2) as u8 };
            self.emit(Step::Dec { g, dst: 3, b: B(bytes), via });
            if g == 1 && self.rng.coin() {
                let via = self.rng.below(3) as u8;
                let n = if via == 2 { self.rng.below(200) as usize } else { 64 };
                let b = self.rng.bytes(n);
                self.emit(Step::Uni { dst: 4, b: B(b), via });
            }
            return;
        }
        let tys = [0u8, 1, 2, 3, 4, 5, 6, 7, 8, 10, 15, 19];
        let ty = tys[self.rng.below(tys.len() as u64) as usize];
        let natural = match ty {
            0 | 1 | 5 | 6 => 32,
            2 | 4 | 7 | 8 | 15 | 19 => 64,
            _ => self.rng.below(100) as usize,
        };
        let mut b = self.rng.bytes(natural);
        if self.faulty() || self.rng.chance(1, 4) {
            match self.rng.below(6) {
                0 => {
                    bump(&mut self.c, "fault:truncate");
                    b.truncate(self.rng.below(natural as u64 + 1) as usize);
                }
                1 => {
                    bump(&mut self.c, "fault:extend");
                    let extra = 1 + self.rng.below(17) as usize;
                    b.extend(self.rng.bytes(extra));
                }
                2 => {
                    bump(&mut self.c, "fault:all_ones");
                    b.iter_mut().for_each(|x| *x = 0xff);
                }
                3 => {
                    bump(&mut self.c, "fault:all_zero");
                    b.iter_mut().for_each(|x| *x = 0);
                }
                4 => {
                    bump(&mut self.c, "fault:scalar_near_l");
                    if b.len() >= 32 {
                        let l = sc::l();
                        let v = match self.rng.below(3) {
                            0 => l,
                            1 => l.sub_borrow(&refmodel::U256::ONE).0,
                            _ => l.add_carry(&refmodel::U256::ONE).0,
                        };
                        b[..32].copy_from_slice(&v.to_le_bytes());
                    }
                }
                _ => {
                    bump(&mut self.c, "fault:empty");
                    b.clear();
                }
            }
        }
        // fixed-size entry points take arrays: pad / cut happens in the executor; slices keep their length
        self.emit(Step::Decode { ty, b: B(b) });
    }
}

pub fn generate(seed: u64, run: u64, focus: &str, thorough: bool) -> Plan {
    let fam = 0x77_69_72_65 ^ simcore::fnv1a(focus.as_bytes());
    let mut rng = Prng::new(simcore::run_seed(seed, fam, run));
    let max_steps = if rng.chance(1, 4) { rng.range(4, 20) } else { rng.range(20, 160) } as usize;
    let fault_pct = *rng.pick(&[0u64, 0, 5, 15, 30]);
    let disp_policy = rng.below(5);
    let mut w = W {
        rng,
        m: ModelW::new(),
        steps: Vec::new(),
        c: Counters::new(),
        fault_pct,
        disp_policy,
        thorough,
        focus,
        heap: BinaryHeap::new(),
        msgs: Vec::new(),
        now: 0,
        seen_triples: Vec::new(),
        damaged_honest_ctx: false,
        force_big: if run % 50 == 7 { Some([33000usize, 16400, 8200, 4100][(run / 50 % 4) as usize]) } else { None },
        signer_pubs: vec![None; 8],
        signer_seeds: vec![None; 8],
        xpubs: vec![None; 8],
    };
    bump(&mut w.c, if fault_pct == 0 { "runs:fault_free" } else { "runs:fault_injecting" });
    bump(&mut w.c, &format!("swarm:dispatch_policy_{}", disp_policy));
    let _ = w.focus;

    // activity weights: [x25519 handshake, montgomery extras, signing request, byzantine signer, batch scenario, decoders, new signer]
    let weights: [u32; 7] = match focus {
        "C07" => [30, 60, 2, 0, 0, 3, 1],
        "C08" => [0, 0, 70, 5, 3, 2, 10],
        "C09" => [0, 0, 20, 70, 2, 2, 6],
        "C13" => [0, 0, 10, 8, 70, 0, 6],
        "C15" => [8, 20, 10, 12, 6, 40, 4],
        _ => [10, 15, 25, 20, 8, 12, 5],
    };
    let nsigners = 1 + w.rng.below(3) as u8;
    if weights[2] > 0 || weights[3] > 0 {
        for s in 0..nsigners {
            w.new_signer(s);
        }
    }
    let mut guard = 0;
    while w.steps.len() < max_steps && guard < 10_000 {
        guard += 1;
        match w.rng.weighted(&weights) {
            0 => w.x_scenario(),
            1 => w.montgomery_extras(),
            2 => {
                let s = w.rng.below(nsigners as u64) as u8;
                let ml = w.msg_len();
                let m = w.rng.bytes(ml);
                let mut mode = w.rng.below(7) as u8;
                if w.rng.chance(1, 8) {
                    // Ed25519ph over another 64-byte message digest
                    bump(&mut w.c, "probe:alternative_prehash_digest");
                    mode = 12 + w.rng.below(3) as u8;
                }
                let ctx = if mode == 6 {
                    // stub digest for both hashes of raw_sign: chosen nonce hash and challenge hash
                    bump(&mut w.c, "fault:chosen_signing_hashes");
                    let mut v = w.rng.bytes(128);
                    if w.rng.chance(1, 4) {
                        for b in v[..64].iter_mut() {
                            *b = 0; // nonce r = 0: R is the identity
                        }
                    }
                    Some(v)
                } else if matches!(mode, 2 | 3 | 5 | 12 | 13 | 14) {
                    w.ctx_choice()
                } else {
                    None
                };
                w.send(Msg::SignReq { s, m, mode, ctx });
                if w.rng.chance(1, 6) {
                    let s2 = w.rng.below(nsigners as u64) as u8;
                    w.emit(Step::SConv { s: s2 });
                }
            }
            3 => w.byzantine(),
            4 => w.batch_scenario(),
            5 => w.decoders(),
            _ => {
                let s = w.rng.below(nsigners as u64) as u8;
                w.new_signer(s);
            }
        }
        // let the network run for a while; some messages stay in flight across activities
        if w.rng.chance(2, 3) {
            w.pump(max_steps);
        }
    }
    // faults stop; everything still in flight is delivered (bounded: the queue only shrinks)
    w.pump(max_steps + 64);
    for q in 0..2u8 {
        w.flush(q, true);
    }
    // bounded liveness of the simulation itself: once faults stop, the queue drains within the step budget
    let left = w.heap.len() as u64;
    simcore::bump_by(&mut w.c, "net:undelivered_when_step_budget_ended", left);
    simcore::bump_by(&mut w.c, "net:messages_posted", w.msgs.len() as u64);
    let ticks = w.now;
    Plan { family: "wire".into(), focus: focus.into(), seed, run, faults: w.c, ticks, steps: w.steps }
}
