use simcore::Plan;
pub fn generate(seed: u64, run: u64, focus: &str, _thorough: bool) -> Plan {
    Plan { family: "wire".into(), focus: focus.into(), seed, run, faults: Default::default(), ticks: 0, steps: vec![] }
}
