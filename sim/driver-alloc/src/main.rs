fn main(){}
