//! dalek-sim-alloc: the allocator seam (property C14).
//!
//! A deterministic arena allocator (`SimAlloc`) is the process's global allocator. Inside a
//! recording window every block handed back to the allocator (dealloc, the old block of a moving
//! realloc, the tail of a shrinking realloc) is copied aside *before* it is released. Each
//! create/use/drop history is executed twice with secrets that differ, everything else equal
//! (same public points, same allocator policy, same addresses because the arena is reset):
//!   * heap clause  - any byte of any freed block that differs between the two executions depends
//!                    on the secret scalars;
//!   * drop clause  - after dropping a secret-holding object neither its slot nor the block its Box
//!                    lived in may contain an 8-byte window of any of its secret byte strings.
//! Single-threaded by design; parallelism is by processes. Exit codes as dalek-sim.

#![allow(static_mut_refs)]

use curve25519_dalek::edwards::EdwardsPoint;
use curve25519_dalek::ristretto::RistrettoPoint;
use curve25519_dalek::scalar::Scalar;
use curve25519_dalek::traits::MultiscalarMul;
use serde::{Deserialize, Serialize};
use simcore::{bump, bump_by, Counters, Prng};
use std::alloc::{GlobalAlloc, Layout, System};
use std::cell::Cell;
use std::collections::BTreeSet;
use std::mem::MaybeUninit;
use zeroize::Zeroize;

// ------------------------------------------------------------------ dispatcher seam (same contract as dalek-sim)

thread_local! {
    static DISPATCH_PREF: Cell<u8> = const { Cell::new(0) };
    static DISPATCH_COUNTS: Cell<[u64; 4]> = const { Cell::new([0; 4]) };
}

#[no_mangle]
pub extern "Rust" fn curve25519_dalek_verif_pick_backend(compiled: u8) -> u8 {
    let pref = DISPATCH_PREF.with(|c| c.get());
    let cpu_ok = match pref {
        1 => true,
        #[cfg(target_arch = "x86_64")]
        2 => std::is_x86_feature_detected!("avx2"),
        #[cfg(target_arch = "x86_64")]
        3 => std::is_x86_feature_detected!("avx512ifma") && std::is_x86_feature_detected!("avx512vl"),
        _ => false,
    };
    let ans = if pref != 0 && (compiled >> (pref - 1)) & 1 == 1 && cpu_ok { pref } else { 0 };
    DISPATCH_COUNTS.with(|c| {
        let mut v = c.get();
        v[ans as usize] += 1;
        c.set(v);
    });
    ans
}

/// observation seam of the library (unused by this driver)
#[no_mangle]
pub extern "Rust" fn curve25519_dalek_verif_observe_scalars(_tag: &[u8], _zs: &[Scalar]) {}

// ------------------------------------------------------------------ SimAlloc

const ARENA_SIZE: usize = 768 << 20;
const SNAP_SIZE: usize = 512 << 20;
const MAX_ENTRIES: usize = 1 << 16;

#[repr(align(4096))]
struct Region<const N: usize>([u8; N]);

static mut ARENA: Region<ARENA_SIZE> = Region([0; ARENA_SIZE]);
static mut SNAP: Region<SNAP_SIZE> = Region([0; SNAP_SIZE]);
static mut ENTRIES: [(u8, usize, usize, usize); MAX_ENTRIES] = [(0, 0, 0, 0); MAX_ENTRIES];
static mut N_ENTRIES: usize = 0;
static mut SNAP_TOP: usize = 0;
static mut TOP: usize = 0;
static mut ARENA_ON: bool = false;
static mut RECORDING: bool = false;
static mut REALLOC_IN_PLACE: bool = true;
static mut OVERFLOW: bool = false;
static mut STATS: [u64; 6] = [0; 6]; // allocs, frees, realloc_inplace, realloc_move, realloc_shrink, bytes_snapshotted

struct SimAlloc;

unsafe fn in_arena(p: *mut u8) -> bool {
    let base = ARENA.0.as_ptr() as usize;
    let a = p as usize;
    a >= base && a < base + ARENA_SIZE
}

/// kind: 0 dealloc, 1 old block of a moving realloc, 2 tail of a shrinking realloc
unsafe fn snapshot(kind: u8, p: *const u8, len: usize) {
    if !RECORDING {
        return;
    }
    if N_ENTRIES >= MAX_ENTRIES || SNAP_TOP + len > SNAP_SIZE {
        OVERFLOW = true;
        return;
    }
    std::ptr::copy_nonoverlapping(p, SNAP.0.as_mut_ptr().add(SNAP_TOP), len);
    let off = p as usize - ARENA.0.as_ptr() as usize;
    ENTRIES[N_ENTRIES] = (kind, SNAP_TOP, len, off);
    N_ENTRIES += 1;
    SNAP_TOP += len;
    STATS[5] += len as u64;
}

unsafe fn arena_alloc(layout: Layout, fill: u8) -> *mut u8 {
    let align = layout.align().max(16);
    let start = (TOP + align - 1) & !(align - 1);
    if start + layout.size() > ARENA_SIZE {
        OVERFLOW = true;
        return std::ptr::null_mut();
    }
    TOP = start + layout.size();
    let p = ARENA.0.as_mut_ptr().add(start);
    // fresh memory is poisoned so that reads of uninitialised bytes are identical in paired runs
    std::ptr::write_bytes(p, fill, layout.size());
    STATS[0] += 1;
    p
}

unsafe impl GlobalAlloc for SimAlloc {
    unsafe fn alloc(&self, layout: Layout) -> *mut u8 {
        if ARENA_ON {
            arena_alloc(layout, 0xA5)
        } else {
            System.alloc(layout)
        }
    }
    unsafe fn alloc_zeroed(&self, layout: Layout) -> *mut u8 {
        if ARENA_ON {
            arena_alloc(layout, 0)
        } else {
            System.alloc_zeroed(layout)
        }
    }
    unsafe fn dealloc(&self, p: *mut u8, layout: Layout) {
        if in_arena(p) {
            snapshot(0, p, layout.size());
            STATS[1] += 1;
            // bump arena: memory is not reused before the next reset
        } else {
            System.dealloc(p, layout)
        }
    }
    unsafe fn realloc(&self, p: *mut u8, layout: Layout, new_size: usize) -> *mut u8 {
        if !in_arena(p) {
            return System.realloc(p, layout, new_size);
        }
        let off = p as usize - ARENA.0.as_ptr() as usize;
        if new_size <= layout.size() {
            if REALLOC_IN_PLACE {
                snapshot(2, p.add(new_size), layout.size() - new_size);
                STATS[4] += 1;
                return p;
            }
            // policy "moving": a shrinking realloc relocates the block, the whole old block is released
            let np = arena_alloc(Layout::from_size_align_unchecked(new_size, layout.align()), 0xA5);
            if np.is_null() {
                return np;
            }
            std::ptr::copy_nonoverlapping(p, np, new_size);
            snapshot(1, p, layout.size());
            STATS[4] += 1;
            return np;
        }
        if REALLOC_IN_PLACE && off + layout.size() == TOP && off + new_size <= ARENA_SIZE {
            std::ptr::write_bytes(p.add(layout.size()), 0xA5, new_size - layout.size());
            TOP = off + new_size;
            STATS[2] += 1;
            return p;
        }
        let np = arena_alloc(Layout::from_size_align_unchecked(new_size, layout.align()), 0xA5);
        if np.is_null() {
            return np;
        }
        std::ptr::copy_nonoverlapping(p, np, layout.size());
        snapshot(1, p, layout.size());
        STATS[3] += 1;
        np
    }
}

#[global_allocator]
static GLOBAL: SimAlloc = SimAlloc;

struct Freed {
    kind: u8,
    off: usize,
    data: Vec<u8>,
}

fn window_begin(in_place: bool) {
    unsafe {
        TOP = 0;
        N_ENTRIES = 0;
        SNAP_TOP = 0;
        REALLOC_IN_PLACE = in_place;
        ARENA_ON = true;
        RECORDING = true;
    }
}

fn window_end() -> Vec<Freed> {
    unsafe {
        RECORDING = false;
        ARENA_ON = false;
        let mut v = Vec::with_capacity(N_ENTRIES);
        for i in 0..N_ENTRIES {
            let (kind, soff, len, off) = ENTRIES[i];
            v.push(Freed { kind, off, data: SNAP.0[soff..soff + len].to_vec() });
        }
        v
    }
}

// ------------------------------------------------------------------ plan

#[derive(Clone, Debug, Serialize, Deserialize, PartialEq)]
#[serde(tag = "op")]
enum Op {
    /// constant-time multiscalar multiplication with n secret scalars. g 0 Edwards / 1 Ristretto
    Msm { g: u8, n: u32, it: u8 },
    /// Scalar::batch_invert on n secret scalars; zero_at = Some(i) puts a zero at index i (outside the documented
    /// domain: only exercised in builds without debug assertions, where the call returns)
    BatchInvert { n: u32, #[serde(default)] zero_at: Option<u32> },
    /// create a secret-holding object in slot s. ty 0 SigningKey 1 ExpandedSecretKey 2 EphemeralSecret
    /// 3 ReusableSecret 4 StaticSecret 5 SharedSecret; how 0 from bytes / rng, 1 clone of a fresh one
    Create { s: u8, ty: u8, how: u8 },
    /// use the object in slot s (sign, DH, to_bytes)
    Use { s: u8 },
    /// drop the object in slot s. via 0 in-place slot, 1 Box, 2 Vec of two
    Drop { s: u8, via: u8 },
    /// explicit zeroisation of a value type. ty 0 Scalar 1 EdwardsPoint 2 RistrettoPoint 3 CompressedEdwardsY
    /// 4 CompressedRistretto 5 MontgomeryPoint
    ZeroizeCall { ty: u8 },
    /// unrelated allocations in between
    Noise { sizes: Vec<u32> },
}

#[derive(Clone, Debug, Serialize, Deserialize)]
struct APlan {
    seed: u64,
    run: u64,
    secret_seed: u64,
    /// dispatcher answer forced for the whole history
    d: u8,
    realloc_in_place: bool,
    ops: Vec<Op>,
}

#[derive(Clone, Debug, Serialize, Deserialize)]
struct AViolation {
    op: usize,
    class: String,
    detail: String,
}

#[derive(Clone, Debug, Serialize, Deserialize)]
struct AReplay {
    version: u32,
    property: String,
    build: std::collections::BTreeMap<String, String>,
    plan: APlan,
    violation: AViolation,
    signature: String,
    original_ops: usize,
}

fn generate(seed: u64, run: u64, thorough: bool) -> APlan {
    let mut rng = Prng::new(simcore::run_seed(seed, 0x61_6c_6c_6f_63, run));
    let nops = 1 + rng.below(10) as usize;
    let sizes_q = [0u32, 1, 2, 3, 4, 5, 7, 8, 9, 16, 33, 64, 190];
    let sizes_t = [0u32, 1, 2, 3, 4, 5, 7, 8, 9, 16, 33, 64, 100, 189, 190, 200, 400];
    let mut ops = Vec::new();
    let mut live: Vec<u8> = Vec::new();
    for _ in 0..nops {
        let sizes: &[u32] = if thorough { &sizes_t } else { &sizes_q };
        match rng.below(12) {
            0..=2 => {
                let mut n = *rng.pick(sizes);
                if rng.chance(1, if thorough { 150 } else { 600 }) {
                    // more terms than any fixed-size block an implementation might work in
                    n = if rng.chance(2, 3) { 4100 } else { 8200 };
                }
                ops.push(Op::Msm { g: rng.below(2) as u8, n, it: rng.below(5) as u8 })
            }
            3 | 4 => {
                let n = *rng.pick(sizes);
                let zero_at = if n > 0 && !cfg!(debug_assertions) && rng.chance(1, 5) { Some(rng.below(n as u64) as u32) } else { None };
                ops.push(Op::BatchInvert { n, zero_at })
            }
            5 | 6 => {
                let s = rng.below(6) as u8;
                ops.push(Op::Create { s, ty: rng.below(6) as u8, how: rng.below(2) as u8 });
                if !live.contains(&s) {
                    live.push(s);
                }
            }
            7 => {
                if let Some(&s) = live.first() {
                    ops.push(Op::Use { s });
                }
            }
            8 | 9 => {
                if !live.is_empty() {
                    let i = rng.below(live.len() as u64) as usize;
                    let s = live.remove(i);
                    ops.push(Op::Drop { s, via: rng.below(3) as u8 });
                }
            }
            10 => ops.push(Op::ZeroizeCall { ty: rng.below(6) as u8 }),
            _ => {
                let k = 1 + rng.below(4) as usize;
                ops.push(Op::Noise { sizes: (0..k).map(|_| 1 + rng.below(5000) as u32).collect() });
            }
        }
    }
    // everything still alive is dropped at the end of the history, in PRNG order
    while !live.is_empty() {
        let i = rng.below(live.len() as u64) as usize;
        let s = live.remove(i);
        ops.push(Op::Drop { s, via: rng.below(3) as u8 });
    }
    APlan { seed, run, secret_seed: rng.next(), d: rng.below(4) as u8, realloc_in_place: rng.coin(), ops }
}

// ------------------------------------------------------------------ secrets

/// i-th 32-byte secret of variant v (0 / 1). The two variants differ in every byte.
fn secret32(plan: &APlan, v: u8, i: u64) -> [u8; 32] {
    let mut r = Prng::new(simcore::run_seed(plan.secret_seed, 0x5ec, i));
    let mut a = r.arr32();
    if v == 1 {
        for b in a.iter_mut() {
            *b ^= 0xa5;
        }
    }
    a
}

fn secret_scalar(plan: &APlan, v: u8, i: u64) -> Scalar {
    let s = Scalar::from_bytes_mod_order(secret32(plan, v, i));
    if s == Scalar::ZERO {
        Scalar::ONE
    } else {
        s
    }
}

fn public_point(plan: &APlan, i: u64) -> EdwardsPoint {
    // public inputs: identical in both variants
    let mut r = Prng::new(simcore::run_seed(plan.secret_seed, 0x9ab, i));
    EdwardsPoint::mul_base(&Scalar::from_bytes_mod_order(r.arr32()))
}

// ------------------------------------------------------------------ secret-holding objects

enum Obj {
    Sk(ed25519_dalek::SigningKey),
    Esk(ed25519_dalek::hazmat::ExpandedSecretKey),
    Eph(x25519_dalek::EphemeralSecret),
    Reu(x25519_dalek::ReusableSecret),
    Sta(x25519_dalek::StaticSecret),
    Sh(x25519_dalek::SharedSecret),
}

struct FixedRng([u8; 32], usize);
impl rand_core::RngCore for FixedRng {
    fn next_u32(&mut self) -> u32 {
        let mut b = [0u8; 4];
        self.fill_bytes(&mut b);
        u32::from_le_bytes(b)
    }
    fn next_u64(&mut self) -> u64 {
        let mut b = [0u8; 8];
        self.fill_bytes(&mut b);
        u64::from_le_bytes(b)
    }
    fn fill_bytes(&mut self, dest: &mut [u8]) {
        for d in dest.iter_mut() {
            *d = self.0[self.1 % 32];
            self.1 += 1;
        }
    }
    fn try_fill_bytes(&mut self, dest: &mut [u8]) -> Result<(), rand_core::Error> {
        self.fill_bytes(dest);
        Ok(())
    }
}
impl rand_core::CryptoRng for FixedRng {}

/// the object plus every secret byte string it holds
fn make_obj(ty: u8, how: u8, sec: [u8; 32], sec2: [u8; 32]) -> (Obj, Vec<Vec<u8>>) {
    use sha2::Digest;
    match ty {
        0 => {
            let sk = if how == 0 { ed25519_dalek::SigningKey::from_bytes(&sec) } else { ed25519_dalek::SigningKey::generate(&mut FixedRng(sec, 0)).clone() };
            (Obj::Sk(sk), vec![sec.to_vec()])
        }
        1 => {
            let mut b = [0u8; 64];
            b[..32].copy_from_slice(&sec);
            b[32..].copy_from_slice(&sec2);
            let esk = ed25519_dalek::hazmat::ExpandedSecretKey::from_bytes(&b);
            let secrets = vec![esk.scalar.to_bytes().to_vec(), esk.hash_prefix.to_vec()];
            let _ = sha2::Sha512::new();
            (Obj::Esk(esk), secrets)
        }
        2 => (Obj::Eph(x25519_dalek::EphemeralSecret::random_from_rng(FixedRng(sec, 0))), vec![sec.to_vec()]),
        3 => {
            let r = x25519_dalek::ReusableSecret::random_from_rng(FixedRng(sec, 0));
            (Obj::Reu(if how == 1 { r.clone() } else { r }), vec![sec.to_vec()])
        }
        4 => {
            let s = x25519_dalek::StaticSecret::from(sec);
            (Obj::Sta(if how == 1 { s.clone() } else { s }), vec![sec.to_vec()])
        }
        _ => {
            let s = x25519_dalek::StaticSecret::from(sec);
            let their = x25519_dalek::PublicKey::from(&x25519_dalek::StaticSecret::from(sec2));
            let sh = s.diffie_hellman(&their);
            let bytes = sh.to_bytes().to_vec();
            (Obj::Sh(sh), vec![bytes])
        }
    }
}

fn use_obj(o: &Obj) {
    use ed25519_dalek::Signer;
    match o {
        Obj::Sk(sk) => {
            let _ = sk.sign(b"history");
            let _ = sk.to_bytes();
        }
        Obj::Esk(esk) => {
            let vk = ed25519_dalek::VerifyingKey::from(esk);
            let _ = ed25519_dalek::hazmat::raw_sign::<sha2::Sha512>(esk, b"history", &vk);
        }
        Obj::Eph(s) => {
            let _ = x25519_dalek::PublicKey::from(s);
        }
        Obj::Reu(s) => {
            let _ = s.diffie_hellman(&x25519_dalek::PublicKey::from([9u8; 32]));
        }
        Obj::Sta(s) => {
            let _ = s.diffie_hellman(&x25519_dalek::PublicKey::from([9u8; 32]));
            let _ = s.to_bytes();
        }
        Obj::Sh(s) => {
            let _ = s.was_contributory();
        }
    }
}

fn has_window(hay: &[u8], secrets: &[Vec<u8>]) -> Option<usize> {
    for s in secrets {
        if s.len() < 8 || s.iter().all(|&b| b == 0) {
            continue;
        }
        for w in s.windows(8) {
            if w.iter().all(|&b| b == w[0]) {
                continue; // constant windows (all zero etc.) carry no information
            }
            if let Some(p) = hay.windows(8).position(|h| h == w) {
                return Some(p);
            }
        }
    }
    None
}

/// drop `obj` in place in a harness-owned slot and return the slot's bytes afterwards
fn drop_in_slot<T>(obj: T) -> Vec<u8> {
    let mut slot = MaybeUninit::<T>::uninit();
    slot.write(obj);
    unsafe {
        std::ptr::drop_in_place(slot.as_mut_ptr());
        let p = slot.as_ptr() as *const u8;
        (0..std::mem::size_of::<T>()).map(|i| std::ptr::read_volatile(p.add(i))).collect()
    }
}

// ------------------------------------------------------------------ execution of one history with one secret variant

struct Trace {
    /// per op: the blocks freed while it ran
    freed: Vec<Vec<Freed>>,
    /// per op: drop-clause findings (description)
    drop_leaks: Vec<Option<String>>,
    /// per op: explicit-zeroisation findings
    zero_fail: Vec<Option<String>>,
    overflow: bool,
}

fn run_variant(plan: &APlan, v: u8, c: &mut Counters) -> Trace {
    let mut tr = Trace { freed: Vec::new(), drop_leaks: Vec::new(), zero_fail: Vec::new(), overflow: false };
    let mut slots: Vec<Option<(Obj, Vec<Vec<u8>>)>> = (0..6).map(|_| None).collect();
    let mut ctr = 0u64;
    DISPATCH_PREF.with(|p| p.set(plan.d));
    for op in &plan.ops {
        let mut freed = Vec::new();
        let mut leak = None;
        let mut zf = None;
        match op {
            Op::Msm { g, n, it } => {
                let n = *n as usize;
                // inputs are the caller's: allocated outside the window
                let scalars: Vec<Scalar> = (0..n).map(|i| secret_scalar(plan, v, ctr + i as u64)).collect();
                let points: Vec<EdwardsPoint> = (0..n).map(|i| public_point(plan, ctr + i as u64)).collect();
                let rpoints: Vec<RistrettoPoint> = points.iter().map(|p| curve25519_dalek::verif_hooks::ristretto_from_edwards(p + p)).collect();
                ctr += n as u64;
                window_begin(plan.realloc_in_place);
                let r = std::panic::catch_unwind(|| match (*g, *it) {
                    (0, 0) => EdwardsPoint::multiscalar_mul(scalars.iter(), points.iter()).compress().to_bytes(),
                    (0, 1) => EdwardsPoint::multiscalar_mul(scalars.iter().cloned(), points.iter().cloned()).compress().to_bytes(),
                    (0, 2) => {
                        let h = n / 2;
                        EdwardsPoint::multiscalar_mul(scalars[..h].iter().chain(scalars[h..].iter()), points[..h].iter().chain(points[h..].iter())).compress().to_bytes()
                    }
                    (0, 4) => EdwardsPoint::multiscalar_mul(scalars.iter().filter(|_| true), points.iter().filter(|_| true)).compress().to_bytes(),
                    (_, 4) => RistrettoPoint::multiscalar_mul(scalars.iter().filter(|_| true), rpoints.iter().filter(|_| true)).compress().to_bytes(),
                    (0, _) => EdwardsPoint::multiscalar_mul(PlainRef(&scalars, 0), PlainRef(&points, 0)).compress().to_bytes(),
                    (_, 0) => RistrettoPoint::multiscalar_mul(scalars.iter(), rpoints.iter()).compress().to_bytes(),
                    (_, 1) => RistrettoPoint::multiscalar_mul(scalars.iter().cloned(), rpoints.iter().cloned()).compress().to_bytes(),
                    (_, 2) => {
                        let h = n / 2;
                        RistrettoPoint::multiscalar_mul(scalars[..h].iter().chain(scalars[h..].iter()), rpoints[..h].iter().chain(rpoints[h..].iter())).compress().to_bytes()
                    }
                    (_, _) => RistrettoPoint::multiscalar_mul(PlainRef(&scalars, 0), PlainRef(&rpoints, 0)).compress().to_bytes(),
                });
                freed = window_end();
                if r.is_err() {
                    if *it == 4 {
                        // iterators without exact size hints are outside the documented domain: refusing them is
                        // fine (frees during unwinding are outside the statement), silently leaking is not
                        freed.clear();
                        bump(c, "probe:inexact_size_hint_refused");
                    } else {
                        zf = Some("panic inside multiscalar_mul".to_string());
                    }
                } else if *it == 4 {
                    bump(c, "probe:inexact_size_hint_accepted");
                }
                bump(c, "op:Msm");
            }
            Op::BatchInvert { n, zero_at } => {
                let n = *n as usize;
                let mut scalars: Vec<Scalar> = (0..n).map(|i| secret_scalar(plan, v, ctr + i as u64)).collect();
                if let Some(z) = zero_at {
                    if (*z as usize) < n && !cfg!(debug_assertions) {
                        scalars[*z as usize] = Scalar::ZERO;
                    }
                }
                ctr += n as u64;
                window_begin(plan.realloc_in_place);
                let r = std::panic::catch_unwind(std::panic::AssertUnwindSafe(|| Scalar::batch_invert(&mut scalars)));
                freed = window_end();
                if r.is_err() {
                    zf = Some("panic inside batch_invert".to_string());
                }
                bump(c, "op:BatchInvert");
            }
            Op::Create { s, ty, how } => {
                let sec = secret32(plan, v, ctr);
                let sec2 = secret32(plan, v, ctr + 1);
                ctr += 2;
                // an object replaced in its slot is dropped: part of the history
                slots[*s as usize % 6] = Some(make_obj(*ty, *how, sec, sec2));
                bump(c, &format!("op:Create_ty{}", ty));
            }
            Op::Use { s } => {
                if let Some((o, _)) = &slots[*s as usize % 6] {
                    use_obj(o);
                    bump(c, "op:Use");
                }
            }
            Op::Drop { s, via } => {
                if let Some((obj, secrets)) = slots[*s as usize % 6].take() {
                    macro_rules! do_drop {
                        ($x:expr) => {{
                            let x = $x;
                            match via {
                                0 => {
                                    let bytes = drop_in_slot(x);
                                    if let Some(p) = has_window(&bytes, &secrets) {
                                        leak = Some(format!("slot still holds secret bytes at offset {} after drop_in_place", p));
                                    }
                                }
                                _ => {
                                    window_begin(plan.realloc_in_place);
                                    let b = Box::new(x);
                                    std::hint::black_box(&b);
                                    drop(b);
                                    freed = window_end();
                                    for f in &freed {
                                        if let Some(p) = has_window(&f.data, &secrets) {
                                            leak = Some(format!("freed block of {} bytes still holds secret bytes at offset {}", f.data.len(), p));
                                        }
                                    }
                                    // drop-clause blocks are scanned, not diffed (they legitimately hold public keys)
                                    freed.clear();
                                }
                            }
                        }};
                    }
                    match obj {
                        Obj::Sk(x) => do_drop!(x),
                        Obj::Esk(x) => do_drop!(x),
                        Obj::Eph(x) => do_drop!(x),
                        Obj::Reu(x) => do_drop!(x),
                        Obj::Sta(x) => do_drop!(x),
                        Obj::Sh(x) => do_drop!(x),
                    }
                    bump(c, &format!("op:Drop_via{}", via));
                }
            }
            Op::ZeroizeCall { ty } => {
                let sec = secret32(plan, v, ctr);
                ctr += 1;
                use curve25519_dalek::traits::Identity;
                let ok = match ty {
                    0 => {
                        let mut s = Scalar::from_bytes_mod_order(sec);
                        s.zeroize();
                        s == Scalar::ZERO && s.to_bytes() == [0u8; 32]
                    }
                    1 => {
                        let mut p = EdwardsPoint::mul_base(&Scalar::from_bytes_mod_order(sec));
                        p.zeroize();
                        p == EdwardsPoint::identity() && refmodel::ed::check_extended(&curve25519_dalek::verif_hooks::edwards_coords(&p)).is_ok()
                    }
                    2 => {
                        let mut p = RistrettoPoint::mul_base(&Scalar::from_bytes_mod_order(sec));
                        p.zeroize();
                        p == RistrettoPoint::identity()
                    }
                    3 => {
                        let mut c = curve25519_dalek::edwards::CompressedEdwardsY(sec);
                        c.zeroize();
                        c == curve25519_dalek::edwards::CompressedEdwardsY::identity()
                    }
                    4 => {
                        let mut c = curve25519_dalek::ristretto::CompressedRistretto(sec);
                        c.zeroize();
                        c.to_bytes() == [0u8; 32]
                    }
                    _ => {
                        let mut m = curve25519_dalek::montgomery::MontgomeryPoint(sec);
                        m.zeroize();
                        m.to_bytes() == [0u8; 32]
                    }
                };
                if !ok {
                    zf = Some(format!("explicit zeroize of value type {} did not reset it", ty));
                }
                bump(c, "op:ZeroizeCall");
            }
            Op::Noise { sizes } => {
                window_begin(plan.realloc_in_place);
                let mut keep: Vec<Vec<u8>> = Vec::new();
                for (i, sz) in sizes.iter().enumerate() {
                    let mut b = vec![i as u8; *sz as usize];
                    b.push(1);
                    keep.push(b);
                }
                drop(keep);
                freed = window_end();
                bump(c, "op:Noise");
            }
        }
        unsafe {
            if OVERFLOW {
                tr.overflow = true;
                OVERFLOW = false;
            }
        }
        tr.freed.push(freed);
        tr.drop_leaks.push(leak);
        tr.zero_fail.push(zf);
    }
    DISPATCH_PREF.with(|p| p.set(0));
    // remaining objects are dropped outside any window
    drop(slots);
    tr
}

/// by-reference ExactSizeIterator that is not TrustedLen
struct PlainRef<'a, T>(&'a [T], usize);
impl<'a, T> Iterator for PlainRef<'a, T> {
    type Item = &'a T;
    fn next(&mut self) -> Option<&'a T> {
        let r = self.0.get(self.1);
        self.1 += 1;
        r
    }
    fn size_hint(&self) -> (usize, Option<usize>) {
        let n = self.0.len().saturating_sub(self.1);
        (n, Some(n))
    }
}
impl<'a, T> ExactSizeIterator for PlainRef<'a, T> {}

/// Execute the history with both secret variants and compare.
fn execute(plan: &APlan, c: &mut Counters) -> Result<Option<AViolation>, String> {
    let a = run_variant(plan, 0, c);
    let b = run_variant(plan, 1, &mut Counters::new());
    if a.overflow || b.overflow {
        return Err("arena or snapshot buffer overflow".into());
    }
    for i in 0..plan.ops.len() {
        let kind = match &plan.ops[i] {
            Op::Msm { .. } => "Msm",
            Op::BatchInvert { .. } => "BatchInvert",
            Op::Create { .. } => "Create",
            Op::Use { .. } => "Use",
            Op::Drop { .. } => "Drop",
            Op::ZeroizeCall { .. } => "ZeroizeCall",
            Op::Noise { .. } => "Noise",
        };
        for tr in [&a, &b] {
            if let Some(l) = &tr.drop_leaks[i] {
                return Ok(Some(AViolation { op: i, class: format!("{}:secret_survives_drop", kind), detail: l.clone() }));
            }
            if let Some(z) = &tr.zero_fail[i] {
                return Ok(Some(AViolation { op: i, class: format!("{}:zeroize", kind), detail: z.clone() }));
            }
        }
        let (fa, fb) = (&a.freed[i], &b.freed[i]);
        if fa.len() != fb.len() {
            return Ok(Some(AViolation { op: i, class: format!("{}:free_pattern_depends_on_secret", kind), detail: format!("{} vs {} frees", fa.len(), fb.len()) }));
        }
        bump_by(c, "frees_compared", fa.len() as u64);
        for (k, (x, y)) in fa.iter().zip(fb.iter()).enumerate() {
            bump_by(c, "freed_bytes_compared", x.data.len() as u64);
            if x.kind == 1 {
                bump(c, "probe:realloc_move_observed");
            }
            if x.data.len() != y.data.len() || x.off != y.off {
                return Ok(Some(AViolation { op: i, class: format!("{}:free_pattern_depends_on_secret", kind), detail: format!("free #{}: {}@{} vs {}@{}", k, x.data.len(), x.off, y.data.len(), y.off) }));
            }
            let diff = x.data.iter().zip(y.data.iter()).filter(|(p, q)| p != q).count();
            if diff > 0 {
                let first = x.data.iter().zip(y.data.iter()).position(|(p, q)| p != q).unwrap();
                return Ok(Some(AViolation {
                    op: i,
                    class: format!("{}:freed_block_depends_on_secret", kind),
                    detail: format!("free #{} (kind {}, {} bytes): {} bytes differ between the two secrets, first at offset {}", k, x.kind, x.data.len(), diff, first),
                }));
            }
        }
    }
    Ok(None)
}

fn shrink(plan: &APlan, v: &AViolation) -> (APlan, AViolation) {
    let mut cur = plan.clone();
    let mut curv = v.clone();
    let mut changed = true;
    let mut budget = 200;
    while changed && budget > 0 {
        changed = false;
        let mut i = 0;
        while i < cur.ops.len() && budget > 0 {
            let mut p = cur.clone();
            p.ops.remove(i);
            budget -= 1;
            match execute(&p, &mut Counters::new()) {
                Ok(Some(nv)) if nv.class == curv.class => {
                    cur = p;
                    curv = nv;
                    changed = true;
                }
                _ => i += 1,
            }
        }
    }
    // shrink sizes
    for i in 0..cur.ops.len() {
        loop {
            let mut p = cur.clone();
            let smaller = match &mut p.ops[i] {
                Op::Msm { n, .. } | Op::BatchInvert { n, .. } if *n > 1 => {
                    *n -= 1;
                    true
                }
                _ => false,
            };
            if !smaller || budget == 0 {
                break;
            }
            budget -= 1;
            match execute(&p, &mut Counters::new()) {
                Ok(Some(nv)) if nv.class == curv.class => {
                    cur = p;
                    curv = nv;
                }
                _ => break,
            }
        }
    }
    (cur, curv)
}

fn signature(plan: &APlan, v: &AViolation) -> String {
    let extra = match plan.ops.get(v.op) {
        Some(Op::Msm { g, .. }) => format!("g={}:d={}", g, plan.d),
        Some(Op::Drop { via, .. }) => format!("via={}", via),
        Some(Op::ZeroizeCall { ty }) => format!("ty={}", ty),
        _ => String::new(),
    };
    format!("{}:{}", v.class, extra)
}

fn plan_signature(plan: &APlan) -> u64 {
    let mut s = serde_json::to_vec(&plan.ops).unwrap();
    s.push(plan.d);
    s.push(plan.realloc_in_place as u8);
    simcore::fnv1a(&s)
}

fn build_info() -> std::collections::BTreeMap<String, String> {
    let mut m = std::collections::BTreeMap::new();
    m.insert("tag".into(), option_env!("DALEK_SIM_TAG").unwrap_or("unknown").into());
    m.insert("profile".into(), if cfg!(debug_assertions) { "checked" } else { "release" }.into());
    m
}

fn arg<'a>(args: &'a [String], name: &str) -> Option<&'a str> {
    args.iter().position(|a| a == name).and_then(|i| args.get(i + 1)).map(|s| s.as_str())
}

fn main() {
    std::panic::set_hook(Box::new(|_| {}));
    let args: Vec<String> = std::env::args().skip(1).collect();
    match args.first().map(|s| s.as_str()) {
        Some("run") => {
            let seed: u64 = arg(&args, "--seed").and_then(|s| s.parse().ok()).unwrap_or(0xD41E5EED);
            let runs: u64 = arg(&args, "--runs").and_then(|s| s.parse().ok()).unwrap_or(100);
            let start: u64 = arg(&args, "--start").and_then(|s| s.parse().ok()).unwrap_or(0);
            let secs: Option<u64> = arg(&args, "--secs").and_then(|s| s.parse().ok());
            let thorough = arg(&args, "--tier") == Some("thorough");
            let replay_dir = arg(&args, "--replay-dir").unwrap_or("/verif/replays").to_string();
            // wall clock is read only to stop a batch, never inside a history
            let t0 = std::time::Instant::now();
            let mut c = Counters::new();
            let mut sigs = BTreeSet::new();
            let mut viols = Vec::new();
            let mut samples = Vec::new();
            let mut done = 0u64;
            for k in 0..runs {
                if let Some(s) = secs {
                    if k % 16 == 0 && t0.elapsed().as_secs() >= s {
                        break;
                    }
                }
                let plan = generate(seed, start + k, thorough);
                match execute(&plan, &mut c) {
                    Err(e) => {
                        eprintln!("harness error: {}", e);
                        std::process::exit(2);
                    }
                    Ok(None) => {}
                    Ok(Some(v)) => {
                        let (sp, sv) = shrink(&plan, &v);
                        let sig = signature(&sp, &sv);
                        let rf = AReplay { version: 1, property: "C14".into(), build: build_info(), plan: sp.clone(), violation: sv.clone(), signature: sig.clone(), original_ops: plan.ops.len() };
                        let text = serde_json::to_string_pretty(&rf).unwrap();
                        let dir = format!("{}/C14", replay_dir);
                        let _ = std::fs::create_dir_all(&dir);
                        let path = format!("{}/{}-{}-{:016x}.json", dir, seed, start + k, simcore::fnv1a(text.as_bytes()));
                        let _ = std::fs::write(&path, &text);
                        viols.push(serde_json::json!({"run": start + k, "replay": path, "class": sv.class, "signature": sig, "detail": sv.detail}));
                    }
                }
                sigs.insert(plan_signature(&plan));
                if k < 2 {
                    samples.push(serde_json::to_value(&plan).unwrap());
                }
                done += 1;
                if viols.len() >= 5 {
                    break;
                }
            }
            let dc = DISPATCH_COUNTS.with(|c| c.get());
            for (k, n) in ["auto", "serial", "avx2", "ifma"].iter().zip(dc.iter()) {
                bump_by(&mut c, &format!("dispatch:{}", k), *n);
            }
            unsafe {
                for (k, n) in ["allocs", "frees", "realloc_in_place", "realloc_move", "realloc_shrink", "bytes_snapshotted"].iter().zip(STATS.iter()) {
                    bump_by(&mut c, &format!("alloc:{}", k), *n);
                }
            }
            let out = serde_json::json!({"runs": done, "distinct_signatures": sigs.len(), "counters": c, "violations": viols, "samples": samples, "build": build_info()});
            println!("{}", out);
            std::process::exit(if viols.is_empty() { 0 } else { 1 });
        }
        Some("replay") => {
            let path = args.get(1).cloned().unwrap_or_default();
            let rf: AReplay = match std::fs::read_to_string(&path).ok().and_then(|t| serde_json::from_str(&t).ok()) {
                Some(r) => r,
                None => {
                    eprintln!("cannot read replay file {}", path);
                    std::process::exit(2);
                }
            };
            match execute(&rf.plan, &mut Counters::new()) {
                Err(e) => {
                    eprintln!("harness error: {}", e);
                    std::process::exit(2);
                }
                Ok(v) => {
                    let same = v.as_ref().map(|v| v.class == rf.violation.class).unwrap_or(false);
                    println!("{}", serde_json::json!({"replay": path, "violation": v, "reproduced": same}));
                    std::process::exit(match (v.is_some(), same) {
                        (true, true) => 1,
                        (true, false) => 3,
                        _ => 0,
                    });
                }
            }
        }
        _ => {
            eprintln!("usage: dalek-sim-alloc run|replay ...");
            std::process::exit(2);
        }
    }
}
