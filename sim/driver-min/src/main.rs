//! dalek-sim-min: executes the steps of a plan that exist in a build of curve25519-dalek / x25519-dalek without
//! optional features, and logs what the library returned exactly as dalek-sim does (same labels, same hashing).
//! No reference model here: the comparison partner is the full driver's log of the same plans (check C05).

#![allow(non_snake_case)]
#![allow(dead_code)]

#[path = "../../driver/src/env.rs"]
mod env;

use curve25519_dalek::constants;
use curve25519_dalek::edwards::{CompressedEdwardsY, EdwardsPoint};
use curve25519_dalek::montgomery::MontgomeryPoint;
use curve25519_dalek::ristretto::{CompressedRistretto, RistrettoPoint};
use curve25519_dalek::scalar::Scalar;
use curve25519_dalek::traits::{Identity, IsIdentity};
use curve25519_dalek::verif_hooks;
use env::{guarded, set_dispatch, Obs, SimRng};
use refmodel::ed::{self, Pt};
use refmodel::{arr32, sc};
use simcore::{Plan, Sc, Step, B};
use std::collections::BTreeMap;
use subtle::{Choice, ConditionallySelectable, ConstantTimeEq};
use x25519_dalek::{EphemeralSecret, PublicKey, ReusableSecret, SharedSecret, StaticSecret};

const NREG: usize = 32;
const NPARTY: usize = 8;

#[allow(deprecated)]
fn sc_real(s: &Sc) -> Scalar {
    let a = s.b.a32();
    match s.k {
        1 => Option::<Scalar>::from(Scalar::from_canonical_bytes(a)).unwrap_or_else(|| Scalar::from_bytes_mod_order(a)),
        2 => Scalar::from_bits(a),
        _ => Scalar::from_bytes_mod_order(a),
    }
}

fn coords_affine(p: &EdwardsPoint) -> Result<Pt, &'static str> {
    ed::check_extended(&verif_hooks::edwards_coords(p))
}

fn robs_e(o: &mut Obs, p: &EdwardsPoint) {
    o.b("enc", p.compress().as_bytes());
    match coords_affine(p) {
        Ok(a) => {
            o.b("aff", &a.encode());
            o.f("repr_ok", true);
        }
        Err(_) => {
            o.b("aff", &[]);
            o.f("repr_ok", false);
        }
    }
}

fn robs_r(o: &mut Obs, p: &RistrettoPoint) {
    o.b("enc", p.compress().as_bytes());
    o.f("repr_ok", coords_affine(&verif_hooks::ristretto_inner(p)).is_ok());
}

enum RX {
    Eph(Option<EphemeralSecret>),
    Reu(ReusableSecret),
    Sta(StaticSecret),
    Raw([u8; 32]),
    Mont([u8; 32]),
}

struct World {
    e: Vec<Option<EdwardsPoint>>,
    r: Vec<Option<RistrettoPoint>>,
    x: Vec<Option<RX>>,
    /// parties whose key step is not executable here: their later steps are not executable either
    shared: BTreeMap<(u8, u8), [u8; 32]>,
}

/// the handle a step (re)defines, so that steps this build cannot execute still invalidate it
fn dst_of(st: &Step) -> Option<(u8, u16)> {
    match st {
        Step::Dec { g, dst, .. } | Step::Const { g, dst, .. } | Step::Bin { g, dst, .. } | Step::Neg { g, dst, .. } | Step::Dbl { g, dst, .. } | Step::Sum { g, dst, .. }
        | Step::Sel { g, dst, .. } | Step::Mul { g, dst, .. } | Step::MulBase { g, dst, .. } | Step::Table { g, dst, .. } | Step::Dbl2 { g, dst, .. } | Step::Msm { g, dst, .. }
        | Step::Pre { g, dst, .. } | Step::Rand { g, dst, .. } | Step::TUse { g, dst, .. } | Step::PUse { g, dst, .. } => Some((*g, *dst)),
        Step::Uni { dst, .. } | Step::FromEd { dst, .. } => Some((1, *dst)),
        Step::Cof { dst, .. } | Step::Clamp { dst, .. } | Step::Cofac { dst, .. } => Some((0, *dst)),
        Step::Zero { g, a } => Some((*g, *a)),
        Step::Rerep { a, .. } => Some((1, *a)),
        _ => None,
    }
}

fn hash_of<T: std::hash::Hash>(v: &T) -> Vec<u8> {
    struct Rec(Vec<u8>);
    impl std::hash::Hasher for Rec {
        fn finish(&self) -> u64 {
            0
        }
        fn write(&mut self, bytes: &[u8]) {
            self.0.extend_from_slice(bytes);
        }
    }
    let mut r = Rec(Vec::new());
    v.hash(&mut r);
    r.0
}

fn shared_obs(o: &mut Obs, sh: &SharedSecret) -> [u8; 32] {
    o.b("shared", sh.as_bytes());
    o.f("contributory", sh.was_contributory());
    sh.to_bytes()
}

enum R {
    Obs(Obs),
    /// a referenced handle / party is missing
    Skip,
    /// this build has no such entry point
    Unsupported,
}

macro_rules! common {
    ($w:ident, $st:ident, $o:ident, $P:ty, $file:ident, $robs:ident, $C:ty, $base:expr, $ris:expr) => {{
        macro_rules! need {
            ($h:expr) => {
                match $w.$file.get($h as usize).copied().flatten() {
                    Some(p) => p,
                    None => return R::Skip,
                }
            };
        }
        macro_rules! set {
            ($dst:expr, $p:expr) => {{
                let p: $P = $p;
                $robs(&mut $o, &p);
                if ($dst as usize) < $w.$file.len() {
                    $w.$file[$dst as usize] = Some(p);
                }
            }};
        }
        match $st {
            Step::Dec { dst, b, via, .. } => {
                if *via != 0 || b.0.len() != 32 {
                    return R::Unsupported;
                }
                let p: Option<$P> = <$C>::from_slice(&b.0).ok().and_then(|c| c.decompress());
                $o.f("some", p.is_some());
                match p {
                    Some(p) => {
                        if $ris {
                            $o.b("reenc", p.compress().as_bytes());
                        }
                        set!(*dst, p)
                    }
                    None => {
                        if (*dst as usize) < $w.$file.len() {
                            $w.$file[*dst as usize] = None;
                        }
                    }
                }
            }
            Step::Bin { dst, a, b, sub, via, .. } => {
                if *via >= 4 {
                    return R::Unsupported;
                }
                let (p, q) = (need!(*a), need!(*b));
                let r = match (*sub, *via) {
                    (false, 0) => &p + &q,
                    (false, 1) => p + q,
                    (false, 2) => {
                        let mut t = p;
                        t += &q;
                        t
                    }
                    (false, _) => p + &q,
                    (true, 0) => &p - &q,
                    (true, 1) => p - q,
                    (true, 2) => {
                        let mut t = p;
                        t -= &q;
                        t
                    }
                    (true, _) => &p - q,
                };
                set!(*dst, r);
            }
            Step::Neg { dst, a, .. } => {
                let p = need!(*a);
                let r = -&p;
                if (-p).compress() != r.compress() {
                    $o.f("neg_variants_disagree", true);
                }
                set!(*dst, r);
            }
            Step::Dbl { dst, a, via, .. } => {
                if *via == 1 {
                    return R::Unsupported;
                }
                let p = need!(*a);
                set!(*dst, &p + &p);
            }
            Step::Sum { dst, hs, .. } => {
                let mut v = Vec::new();
                for h in hs {
                    v.push(need!(*h));
                }
                let r: $P = v.iter().sum();
                let r2: $P = v.clone().into_iter().sum();
                if r.compress() != r2.compress() {
                    $o.f("sum_variants_disagree", true);
                }
                set!(*dst, r);
            }
            Step::Sel { dst, a, b, c, via, .. } => {
                let (p, q) = (need!(*a), need!(*b));
                let ch = Choice::from(*c & 1);
                let r = if *via == 1 {
                    let mut t = p;
                    t.conditional_assign(&q, ch);
                    t
                } else if *via == 2 {
                    let (mut t, mut u) = (p, q);
                    <$P>::conditional_swap(&mut t, &mut u, ch);
                    let other_ok = if *c & 1 == 1 { u.compress() == p.compress() } else { u.compress() == q.compress() };
                    if !other_ok {
                        $o.f("swap_lost_operand", true);
                    }
                    t
                } else {
                    <$P>::conditional_select(&p, &q, ch)
                };
                set!(*dst, r);
            }
            Step::Mul { dst, a, s, via, d, .. } => {
                let p = need!(*a);
                let k = sc_real(s);
                set_dispatch(*d);
                let r = match via {
                    0 => &p * &k,
                    1 => &k * &p,
                    2 => p * k,
                    _ => {
                        let mut t = p;
                        t *= &k;
                        t
                    }
                };
                set_dispatch(0);
                set!(*dst, r);
            }
            Step::Dbl2 { dst, sa, a, sb, d, .. } => {
                let p = need!(*a);
                let (ka, kb) = (sc_real(sa), sc_real(sb));
                set_dispatch(*d);
                let r = <$P>::vartime_double_scalar_mul_basepoint(&ka, &p, &kb);
                set_dispatch(0);
                set!(*dst, r);
            }
            Step::Eq { a, b, .. } => {
                let (p, q) = (need!(*a), need!(*b));
                let e1 = p == q;
                let e2: bool = p.ct_eq(&q).into();
                if e1 != e2 {
                    $o.f("eq_inconsistent", true);
                }
                $o.f("eq", e1);
                $o.f("enc_eq", p.compress() == q.compress());
            }
            Step::Zero { a, .. } => {
                let _ = need!(*a);
                // no zeroize feature in this build: reset through the identity constructor (as dalek-sim does there)
                set!(*a, <$P as Identity>::identity());
            }
            Step::Const { dst, which, .. } => {
                let p: $P = match which {
                    1 => $base,
                    2 => <$P>::default(),
                    w if *w >= 3 => {
                        if $ris {
                            return R::Skip;
                        }
                        // filled in by the caller for Edwards
                        return R::Unsupported;
                    }
                    _ => <$P as Identity>::identity(),
                };
                set!(*dst, p);
            }
            _ => return R::Unsupported,
        }
    }};
}

impl World {
    fn new() -> World {
        World { e: vec![None; NREG], r: vec![None; NREG], x: (0..NPARTY).map(|_| None).collect(), shared: BTreeMap::new() }
    }

    fn apply(&mut self, st: &Step) -> R {
        let mut o = Obs::new();
        macro_rules! need_e {
            ($h:expr) => {
                match self.e.get($h as usize).copied().flatten() {
                    Some(p) => p,
                    None => return R::Skip,
                }
            };
        }
        macro_rules! need_r {
            ($h:expr) => {
                match self.r.get($h as usize).copied().flatten() {
                    Some(p) => p,
                    None => return R::Skip,
                }
            };
        }
        macro_rules! set_e {
            ($dst:expr, $p:expr) => {{
                let p: EdwardsPoint = $p;
                robs_e(&mut o, &p);
                if ($dst as usize) < self.e.len() {
                    self.e[$dst as usize] = Some(p);
                }
            }};
        }
        macro_rules! set_r {
            ($dst:expr, $p:expr) => {{
                let p: RistrettoPoint = $p;
                robs_r(&mut o, &p);
                if ($dst as usize) < self.r.len() {
                    self.r[$dst as usize] = Some(p);
                }
            }};
        }
        match st {
            Step::Const { g: 0, dst, which } if *which >= 3 => {
                set_e!(*dst, constants::EIGHT_TORSION[(*which as usize - 3) % 8]);
            }
            Step::Dec { g, .. }
            | Step::Const { g, .. }
            | Step::Bin { g, .. }
            | Step::Neg { g, .. }
            | Step::Dbl { g, .. }
            | Step::Sum { g, .. }
            | Step::Sel { g, .. }
            | Step::Mul { g, .. }
            | Step::Dbl2 { g, .. }
            | Step::Eq { g, .. }
            | Step::Zero { g, .. } => {
                if *g == 0 {
                    common!(self, st, o, EdwardsPoint, e, robs_e, CompressedEdwardsY, constants::ED25519_BASEPOINT_POINT, false)
                } else {
                    common!(self, st, o, RistrettoPoint, r, robs_r, CompressedRistretto, constants::RISTRETTO_BASEPOINT_POINT, true)
                }
            }
            Step::Uni { dst, b, via } => {
                if *via != 0 {
                    return R::Unsupported;
                }
                set_r!(*dst, RistrettoPoint::from_uniform_bytes(&b.a64()));
            }
            Step::Cof { dst, a } => {
                let p = need_e!(*a);
                set_e!(*dst, p.mul_by_cofactor());
            }
            Step::MulBase { g, dst, s, via, d } => {
                let k = sc_real(s);
                set_dispatch(*d);
                if *g == 0 {
                    let r = match via {
                        2 => k * constants::ED25519_BASEPOINT_POINT,
                        _ => EdwardsPoint::mul_base(&k),
                    };
                    set_dispatch(0);
                    set_e!(*dst, r);
                } else {
                    let r = match via {
                        2 => k * constants::RISTRETTO_BASEPOINT_POINT,
                        _ => RistrettoPoint::mul_base(&k),
                    };
                    set_dispatch(0);
                    set_r!(*dst, r);
                }
            }
            Step::Clamp { dst, a, k, d } => {
                set_dispatch(*d);
                let r = match a {
                    Some(h) => {
                        let p = need_e!(*h);
                        p.mul_clamped(k.a32())
                    }
                    None => EdwardsPoint::mul_base_clamped(k.a32()),
                };
                set_dispatch(0);
                set_e!(*dst, r);
            }
            Step::Table { g, dst, a, radix: _, s, .. } => {
                let k = sc_real(s);
                if *g == 0 {
                    let p = need_e!(*a);
                    o.b("tbl_base", p.compress().as_bytes());
                    o.b("tbl_clamped", p.mul_clamped(s.b.a32()).compress().as_bytes());
                    o.b("tbl_converted", (&p * &k).compress().as_bytes());
                    set_e!(*dst, &k * &p);
                } else {
                    let p = need_r!(*a);
                    o.b("tbl_base", p.compress().as_bytes());
                    set_r!(*dst, &k * &p);
                }
            }
            Step::Cmp { g, a } => {
                if *g == 0 {
                    let p = need_e!(*a);
                    robs_e(&mut o, &p);
                    o.f("deep_ok", true);
                    o.f("is_identity", IsIdentity::is_identity(&p));
                } else {
                    let p = need_r!(*a);
                    robs_r(&mut o, &p);
                    let inner = verif_hooks::ristretto_inner(&p);
                    let ok = match coords_affine(&inner) {
                        Ok(a) => a.mul_u256(&sc::l()).dbl().dbl().is_identity(),
                        Err(_) => false,
                    };
                    o.f("deep_ok", ok);
                    o.f("is_identity", IsIdentity::is_identity(&p));
                }
            }
            Step::Pred { a } => {
                let p = need_e!(*a);
                o.f("is_identity", IsIdentity::is_identity(&p));
                o.f("is_small_order", p.is_small_order());
                o.f("is_torsion_free", EdwardsPoint::is_torsion_free(&p));
            }
            Step::ToMont { a } => {
                let p = need_e!(*a);
                o.b("u", p.to_montgomery().as_bytes());
            }
            Step::Rerep { a, j } => {
                let p = need_r!(*a);
                let t4 = match CompressedEdwardsY(ed::torsion()[(2 * (*j as usize)) % 8].encode()).decompress() {
                    Some(t) => t,
                    None => return R::Skip,
                };
                let q = verif_hooks::ristretto_from_edwards(verif_hooks::ristretto_inner(&p) + t4);
                if !bool::from(q.ct_eq(&p)) || q != p {
                    o.f("coset_representatives_unequal", true);
                }
                set_r!(*a, q);
            }
            Step::FromEd { dst, a } => {
                let p = need_e!(*a);
                set_r!(*dst, verif_hooks::ristretto_from_edwards(p + p));
            }
            // ---------------------------------------------------------------- X25519 / Montgomery
            Step::XKey { p, fl, rng } => {
                if *fl == 6 {
                    return R::Unsupported;
                }
                let mut r = SimRng::new(&rng.b.0);
                let k32 = arr32(&env::rng_prefix(&rng.b.0, 32));
                let (party, pubk) = match fl {
                    0 => {
                        let s = EphemeralSecret::random_from_rng(&mut r);
                        let pk = PublicKey::from(&s);
                        (RX::Eph(Some(s)), pk.to_bytes())
                    }
                    1 => {
                        let s = ReusableSecret::random_from_rng(&mut r);
                        let pk = PublicKey::from(&s);
                        (RX::Reu(s), pk.to_bytes())
                    }
                    2 => {
                        let s = StaticSecret::random_from_rng(&mut r);
                        let pk = PublicKey::from(&s);
                        o.b("pub", pk.as_bytes());
                        o.b("secret_bytes", &s.to_bytes());
                        self.x[*p as usize % NPARTY] = Some(RX::Sta(s));
                        self.shared.retain(|(a, b), _| *a != *p && *b != *p);
                        return R::Obs(o);
                    }
                    3 => {
                        let s = StaticSecret::from(k32);
                        let pk = PublicKey::from(&s);
                        o.b("pub", pk.as_bytes());
                        o.b("secret_bytes", s.as_bytes());
                        self.x[*p as usize % NPARTY] = Some(RX::Sta(s));
                        self.shared.retain(|(a, b), _| *a != *p && *b != *p);
                        return R::Obs(o);
                    }
                    4 => (RX::Raw(k32), x25519_dalek::x25519(k32, x25519_dalek::X25519_BASEPOINT_BYTES)),
                    _ => (RX::Mont(k32), MontgomeryPoint::mul_base_clamped(k32).to_bytes()),
                };
                o.b("pub", &pubk);
                self.x[*p as usize % NPARTY] = Some(party);
                self.shared.retain(|(a, b), _| *a != *p && *b != *p);
            }
            Step::XDh { p, pk, peer } => {
                let pi = *p as usize % NPARTY;
                let their = PublicKey::from(pk.a32());
                let sh: [u8; 32] = match &mut self.x[pi] {
                    None => return R::Skip,
                    Some(RX::Eph(s)) => match s.take() {
                        None => return R::Skip,
                        Some(s) => shared_obs(&mut o, &s.diffie_hellman(&their)),
                    },
                    Some(RX::Reu(s)) => shared_obs(&mut o, &s.diffie_hellman(&their)),
                    Some(RX::Sta(s)) => shared_obs(&mut o, &s.diffie_hellman(&their)),
                    Some(RX::Raw(k)) => {
                        let out = x25519_dalek::x25519(*k, pk.a32());
                        o.b("shared", &out);
                        o.f("contributory", out != [0u8; 32]);
                        out
                    }
                    Some(RX::Mont(k)) => {
                        let out = MontgomeryPoint(pk.a32()).mul_clamped(*k).to_bytes();
                        o.b("shared", &out);
                        o.f("contributory", out != [0u8; 32]);
                        out
                    }
                };
                if let Some(q) = peer {
                    // the "agree" observation depends on the peer's state too: only reproducible when the peer exists here
                    self.shared.insert((*p, *q), sh);
                    if self.x[*q as usize % NPARTY].is_none() {
                        return R::Unsupported;
                    }
                    if let Some(other) = self.shared.get(&(*q, *p)) {
                        o.f("agree", *other == sh);
                    }
                }
            }
            Step::XRaw { k, u } => {
                o.b("out", &x25519_dalek::x25519(k.a32(), u.a32()));
            }
            Step::MMul { u, s } => {
                let k = sc_real(s);
                let p = MontgomeryPoint(u.a32());
                let r1 = &p * &k;
                let r2 = &k * &p;
                let mut r3 = p;
                r3 *= &k;
                o.b("out", r1.as_bytes());
                if r1.as_bytes() != r2.as_bytes() || r1.as_bytes() != r3.as_bytes() {
                    o.f("paths_disagree", true);
                }
            }
            Step::MBase { s } => {
                let k = sc_real(s);
                o.b("out", MontgomeryPoint::mul_base(&k).as_bytes());
                o.b("clamped", MontgomeryPoint::mul_base_clamped(s.b.a32()).as_bytes());
            }
            Step::MBits { u, bits, n } => {
                let mut v = Vec::new();
                for byte in &bits.0 {
                    for j in (0..8).rev() {
                        v.push((byte >> j) & 1 == 1);
                    }
                }
                v.truncate(*n as usize);
                let r = MontgomeryPoint(u.a32()).mul_bits_be(v.into_iter());
                o.b("out", r.as_bytes());
            }
            Step::MToEd { u, sign } => {
                let p = MontgomeryPoint(u.a32()).to_edwards(*sign);
                o.f("some", p.is_some());
                if let Some(p) = p {
                    o.b("enc", p.compress().as_bytes());
                    o.f("repr_ok", coords_affine(&p).is_ok());
                }
            }
            Step::MEq { a, b } => {
                let (pa, pb) = (MontgomeryPoint(a.a32()), MontgomeryPoint(b.a32()));
                let eq = pa == pb;
                if eq != bool::from(pa.ct_eq(&pb)) {
                    o.f("eq_inconsistent", true);
                }
                o.f("eq", eq);
                let he = hash_of(&pa) == hash_of(&pb) && hash_of(&PublicKey::from(a.a32())) == hash_of(&PublicKey::from(b.a32()));
                o.f("hash_eq", he);
                o.f("a_identity", pa.is_identity());
            }
            _ => return R::Unsupported,
        }
        R::Obs(o)
    }
}

fn execute(plan: &Plan) -> (Vec<(usize, u64)>, Option<String>) {
    let mut w = World::new();
    let mut log = Vec::new();
    for (i, st) in plan.steps.iter().enumerate() {
        let r = guarded(|| w.apply(st));
        set_dispatch(0);
        match r {
            Err(msg) => return (log, Some(format!("panic at step {} ({}): {}", i, st.kind(), msg))),
            Ok(R::Obs(o)) => log.push((i, o.hash())),
            Ok(R::Skip) | Ok(R::Unsupported) => {
                // the step exists only with optional features, or one of its operands is unknown here: whatever it
                // (re)defines in the full build is unknown here
                if let Some((g, dst)) = dst_of(st) {
                    if g == 0 {
                        if (dst as usize) < w.e.len() {
                            w.e[dst as usize] = None;
                        }
                    } else if (dst as usize) < w.r.len() {
                        w.r[dst as usize] = None;
                    }
                }
                if let Step::XKey { p, .. } = st {
                    w.x[*p as usize % NPARTY] = None;
                }
            }
        }
    }
    (log, None)
}

fn main() {
    env::install_panic_hook();
    let _ = refmodel::ed::set_torsion_anchor(&constants::EIGHT_TORSION[1].compress().to_bytes());
    let args: Vec<String> = std::env::args().skip(1).collect();
    match args.first().map(|s| s.as_str()) {
        // exec-plan FILE : one plan (JSON), prints LOG lines like dalek-sim exec-plan
        Some("exec-plan") => {
            let plan: Plan = match std::fs::read_to_string(&args[1]).ok().and_then(|t| serde_json::from_str(&t).ok()) {
                Some(p) => p,
                None => {
                    eprintln!("cannot read plan");
                    std::process::exit(2);
                }
            };
            let (log, panic) = execute(&plan);
            for (i, h) in &log {
                println!("LOG {} {:016x}", i, h);
            }
            let v = match panic {
                Some(p) => serde_json::json!({"class": "min:panic", "detail": p}),
                None => serde_json::Value::Null,
            };
            println!("RESULT {}", serde_json::json!({"violation": v, "n": log.len()}));
        }
        // exec-plans FILE OUT : JSON-lines of plans; writes "run step hash" lines
        Some("exec-plans") => {
            let text = std::fs::read_to_string(&args[1]).expect("plans file");
            let mut out = String::new();
            for line in text.lines() {
                if line.trim().is_empty() {
                    continue;
                }
                let plan: Plan = serde_json::from_str(line).expect("plan");
                let (log, panic) = execute(&plan);
                for (i, h) in &log {
                    out.push_str(&format!("{} {} {:016x}\n", plan.run, i, h));
                }
                if let Some(p) = panic {
                    out.push_str(&format!("{} PANIC {}\n", plan.run, p.replace('\n', " ")));
                }
            }
            std::fs::write(&args[2], out).expect("write");
        }
        _ => {
            eprintln!("usage: dalek-sim-min exec-plan FILE | exec-plans FILE OUT");
            std::process::exit(2);
        }
    }
}
