//! Integers mod l = 2^252 + 27742317777372353535851937790883648493.

use crate::big::*;

pub fn l() -> U256 {
    static L: std::sync::OnceLock<U256> = std::sync::OnceLock::new();
    *L.get_or_init(l_compute)
}

fn l_compute() -> U256 {
    // 2^252 + 27742317777372353535851937790883648493
    let low = U256::from_dec("27742317777372353535851937790883648493");
    let mut two252 = U256::ZERO;
    two252.0[3] = 1u64 << 60;
    two252.add_carry(&low).0
}

#[derive(Clone, Copy, PartialEq, Eq, Debug, Hash)]
pub struct Sc(pub U256);

impl Sc {
    pub const ZERO: Sc = Sc(U256::ZERO);
    pub const ONE: Sc = Sc(U256::ONE);

    pub fn from_bytes_mod_order(b: &[u8; 32]) -> Sc {
        Sc(reduce(&U256::from_le_bytes(b), &l()))
    }
    pub fn from_wide(b: &[u8; 64]) -> Sc {
        Sc(reduce_wide(&wide_from_le_bytes(b), &l()))
    }
    pub fn from_u64(v: u64) -> Sc {
        Sc(U256::from_u64(v))
    }
    pub fn is_canonical_bytes(b: &[u8; 32]) -> bool {
        U256::from_le_bytes(b).lt(&l())
    }
    pub fn to_bytes(&self) -> [u8; 32] {
        self.0.to_le_bytes()
    }
    pub fn add(&self, o: &Sc) -> Sc {
        Sc(addmod(&self.0, &o.0, &l()))
    }
    pub fn sub(&self, o: &Sc) -> Sc {
        Sc(submod(&self.0, &o.0, &l()))
    }
    pub fn neg(&self) -> Sc {
        Sc::ZERO.sub(self)
    }
    pub fn mul(&self, o: &Sc) -> Sc {
        Sc(mulmod(&self.0, &o.0, &l()))
    }
    pub fn pow(&self, e: &U256) -> Sc {
        let mut r = Sc::ONE;
        for i in (0..256).rev() {
            r = r.mul(&r);
            if e.bit(i) {
                r = r.mul(self);
            }
        }
        r
    }
    pub fn inv(&self) -> Sc {
        self.pow(&l().sub_borrow(&U256::from_u64(2)).0)
    }
}

/// RFC 7748 / RFC 8032 clamping
pub fn clamp(b: &[u8; 32]) -> [u8; 32] {
    let mut k = *b;
    k[0] &= 248;
    k[31] &= 127;
    k[31] |= 64;
    k
}
