//! Twisted Edwards curve -x^2 + y^2 = 1 + d x^2 y^2 over GF(2^255-19), affine reference.

use crate::big::*;
use crate::fp::Fp;
use crate::sc;

pub fn d() -> Fp {
    static D: std::sync::OnceLock<Fp> = std::sync::OnceLock::new();
    *D.get_or_init(|| Fp::from_u64(121665).neg().div(&Fp::from_u64(121666)))
}

#[derive(Clone, Copy, PartialEq, Eq, Debug, Hash, PartialOrd, Ord)]
pub struct Pt {
    pub x: Fp,
    pub y: Fp,
}

/// Extended coordinates, used only to make long scalar multiplications affordable.
#[derive(Clone, Copy, Debug)]
pub struct Ext {
    x: Fp,
    y: Fp,
    z: Fp,
    t: Fp,
}

impl Pt {
    pub const IDENTITY: Pt = Pt { x: Fp::ZERO, y: Fp::ONE };

    pub fn on_curve(&self) -> bool {
        let x2 = self.x.sq();
        let y2 = self.y.sq();
        y2.sub(&x2) == Fp::ONE.add(&d().mul(&x2).mul(&y2))
    }

    /// textbook complete affine addition law (a = -1)
    pub fn add(&self, o: &Pt) -> Pt {
        let dd = d();
        let x1x2 = self.x.mul(&o.x);
        let y1y2 = self.y.mul(&o.y);
        let k = dd.mul(&x1x2).mul(&y1y2);
        let x3 = self.x.mul(&o.y).add(&self.y.mul(&o.x)).div(&Fp::ONE.add(&k));
        let y3 = y1y2.add(&x1x2).div(&Fp::ONE.sub(&k));
        Pt { x: x3, y: y3 }
    }

    pub fn neg(&self) -> Pt {
        Pt { x: self.x.neg(), y: self.y }
    }

    pub fn sub(&self, o: &Pt) -> Pt {
        self.add(&o.neg())
    }

    pub fn dbl(&self) -> Pt {
        self.add(self)
    }

    pub fn is_identity(&self) -> bool {
        *self == Pt::IDENTITY
    }

    pub fn encode(&self) -> [u8; 32] {
        let mut b = self.y.to_bytes();
        if self.x.is_negative() {
            b[31] |= 0x80;
        }
        b
    }

    /// Decoding exactly as property C03 states it: y = low 255 bits reduced mod p (non-canonical
    /// values accepted), accepted iff some x satisfies the curve equation; x gets the requested sign
    /// (x = 0 stays 0 whatever the sign bit).
    pub fn decode(b: &[u8; 32]) -> Option<Pt> {
        let sign = b[31] >> 7 == 1;
        let y = Fp::from_bytes(b);
        let y2 = y.sq();
        let u = y2.sub(&Fp::ONE);
        let v = d().mul(&y2).add(&Fp::ONE);
        // v != 0 because d is a non-square
        let x2 = u.div(&v);
        let mut x = x2.sqrt()?;
        if sign {
            x = x.neg();
        }
        Some(Pt { x, y })
    }

    pub fn to_ext(&self) -> Ext {
        Ext { x: self.x, y: self.y, z: Fp::ONE, t: self.x.mul(&self.y) }
    }

    /// [k]P for the integer k given as little-endian bytes of any length (no reduction of k).
    pub fn mul_le(&self, k_le: &[u8]) -> Pt {
        let mut acc = Pt::IDENTITY.to_ext();
        let base = self.to_ext();
        for bit in bits_msb_first(k_le) {
            acc = acc.dbl();
            if bit {
                acc = acc.add(&base);
            }
        }
        acc.to_affine()
    }

    pub fn mul_u256(&self, k: &U256) -> Pt {
        self.mul_le(&k.to_le_bytes())
    }

    /// slow path by repeated affine additions; used for cross-checking mul_le
    pub fn mul_le_affine(&self, k_le: &[u8]) -> Pt {
        let mut acc = Pt::IDENTITY;
        for bit in bits_msb_first(k_le) {
            acc = acc.dbl();
            if bit {
                acc = acc.add(self);
            }
        }
        acc
    }

    pub fn mul8(&self) -> Pt {
        self.dbl().dbl().dbl()
    }

    pub fn is_small_order(&self) -> bool {
        self.mul8().is_identity()
    }

    pub fn is_torsion_free(&self) -> bool {
        self.mul_u256(&sc::l()).is_identity()
    }

    /// Montgomery u = (1+y)/(1-y), with 1/0 = 0
    pub fn to_montgomery_u(&self) -> Fp {
        Fp::ONE.add(&self.y).div(&Fp::ONE.sub(&self.y))
    }
}

impl Ext {
    /// add-2008-hwcd-3 (a = -1), complete because d is a non-square
    pub fn add(&self, o: &Ext) -> Ext {
        let two_d = d().add(&d());
        let a = self.y.sub(&self.x).mul(&o.y.sub(&o.x));
        let b = self.y.add(&self.x).mul(&o.y.add(&o.x));
        let c = self.t.mul(&two_d).mul(&o.t);
        let dd = self.z.add(&self.z).mul(&o.z);
        let e = b.sub(&a);
        let f = dd.sub(&c);
        let g = dd.add(&c);
        let h = b.add(&a);
        Ext { x: e.mul(&f), y: g.mul(&h), t: e.mul(&h), z: f.mul(&g) }
    }

    /// dbl-2008-hwcd (a = -1)
    pub fn dbl(&self) -> Ext {
        let a = self.x.sq();
        let b = self.y.sq();
        let c = self.z.sq().add(&self.z.sq());
        let d_ = a.neg();
        let e = self.x.add(&self.y).sq().sub(&a).sub(&b);
        let g = d_.add(&b);
        let f = g.sub(&c);
        let h = d_.sub(&b);
        Ext { x: e.mul(&f), y: g.mul(&h), t: e.mul(&h), z: f.mul(&g) }
    }

    pub fn to_affine(&self) -> Pt {
        let zi = self.z.inv();
        Pt { x: self.x.mul(&zi), y: self.y.mul(&zi) }
    }
}

/// Sum of k_i * P_i for integer k_i given as little-endian byte strings.
pub fn multiscalar(ks: &[Vec<u8>], ps: &[Pt]) -> Pt {
    assert_eq!(ks.len(), ps.len());
    let mut acc = Pt::IDENTITY.to_ext();
    for (k, p) in ks.iter().zip(ps) {
        let t = p.mul_le(k);
        acc = acc.add(&t.to_ext());
    }
    acc.to_affine()
}

/// The Ed25519 base point: y = 4/5, x non-negative.
pub fn basepoint() -> Pt {
    static B: std::sync::OnceLock<Pt> = std::sync::OnceLock::new();
    *B.get_or_init(basepoint_compute)
}

fn basepoint_compute() -> Pt {
    let y = Fp::from_u64(4).div(&Fp::from_u64(5));
    let mut b = y.to_bytes();
    b[31] &= 0x7f;
    Pt::decode(&b).expect("base point decodes")
}

/// The eight torsion points, derived from the curve itself: multiply decodable points by l until
/// a point of exact order 8 turns up, then list its multiples. Index i holds [i]T8.
pub fn torsion() -> [Pt; 8] {
    static T: std::sync::OnceLock<[Pt; 8]> = std::sync::OnceLock::new();
    *T.get_or_init(torsion_compute)
}

fn torsion_compute() -> [Pt; 8] {
    let ell = sc::l();
    let mut y = 2u64;
    loop {
        let mut b = [0u8; 32];
        b[..8].copy_from_slice(&y.to_le_bytes());
        if let Some(p) = Pt::decode(&b) {
            let t = p.mul_u256(&ell);
            // exact order 8 <=> [4]t != identity
            if !t.dbl().dbl().is_identity() {
                let mut out = [Pt::IDENTITY; 8];
                for i in 1..8 {
                    out[i] = out[i - 1].add(&t);
                }
                assert!(out[7].add(&t).is_identity());
                return out;
            }
        }
        y += 1;
    }
}

/// Check the projective curve equation and Segre relation on raw extended coordinates
/// (canonical bytes of X, Y, Z, T): Z != 0, (-X^2+Y^2) Z^2 = Z^4 + d X^2 Y^2, X Y = Z T.
pub fn check_extended(c: &[[u8; 32]; 4]) -> Result<Pt, &'static str> {
    // the accessor hands out what the field encoder produced for each coordinate: always the representative below p
    for b in c.iter() {
        if Fp::from_bytes(b).to_bytes() != *b {
            return Err("coordinate not canonically encoded");
        }
    }
    let x = Fp::from_bytes(&c[0]);
    let y = Fp::from_bytes(&c[1]);
    let z = Fp::from_bytes(&c[2]);
    let t = Fp::from_bytes(&c[3]);
    if z.is_zero() {
        return Err("Z = 0");
    }
    let x2 = x.sq();
    let y2 = y.sq();
    let z2 = z.sq();
    if y2.sub(&x2).mul(&z2) != z2.sq().add(&d().mul(&x2).mul(&y2)) {
        return Err("curve equation fails");
    }
    if x.mul(&y) != z.mul(&t) {
        return Err("XY != ZT");
    }
    let zi = z.inv();
    Ok(Pt { x: x.mul(&zi), y: y.mul(&zi) })
}

/// The table the library documents as EIGHT_TORSION: element i is [i]P for *a* generator P of E[8]; which of the
/// four generators is not part of the documentation. The driver therefore calibrates the anchor once at start-up
/// from the library's own element 1 (`set_torsion_anchor`), which is accepted only if it is a point of exact order 8;
/// everything else (the other seven entries, every coordinate of every entry) is then decided by the model. Without a
/// valid calibration the published point c7176a70...037a is used.
static TORSION_ANCHOR: std::sync::OnceLock<Pt> = std::sync::OnceLock::new();

pub fn set_torsion_anchor(enc: &[u8; 32]) -> bool {
    match Pt::decode(enc) {
        Some(g) if g.encode() == *enc && g.mul8().is_identity() && !g.dbl().dbl().is_identity() => TORSION_ANCHOR.set(g).is_ok(),
        _ => false,
    }
}

pub fn torsion_table_documented() -> [Pt; 8] {
    let g = *TORSION_ANCHOR.get_or_init(|| {
        let enc = crate::arr32(&crate::unhex("c7176a703d4dd84fba3c0b760d10670f2a2053fa2c39ccc64ec7fd7792ac037a"));
        Pt::decode(&enc).expect("order-8 generator decodes")
    });
    let mut out = [Pt::IDENTITY; 8];
    for i in 1..8 {
        out[i] = out[i - 1].add(&g);
    }
    out
}
