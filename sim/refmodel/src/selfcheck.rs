//! Self-validation of the reference model against published vectors and algebraic identities.
//! A failure here is a harness error (exit 2), never a finding about the code under test.

use crate::big::*;
use crate::ed::{self, Pt};
use crate::fp::{Fp, P};
use crate::sc::{self, Sc};
use crate::{arr32, arr64, eddsa, hex, ristretto, unhex, x25519};

const VECTORS: &str = include_str!("../vectors.txt");

fn splitmix(s: &mut u64) -> u64 {
    *s = s.wrapping_add(0x9e37_79b9_7f4a_7c15);
    let mut z = *s;
    z = (z ^ (z >> 30)).wrapping_mul(0xbf58_476d_1ce4_e5b9);
    z = (z ^ (z >> 27)).wrapping_mul(0x94d0_49bb_1331_11eb);
    z ^ (z >> 31)
}

fn rand32(s: &mut u64) -> [u8; 32] {
    let mut b = [0u8; 32];
    for i in 0..4 {
        b[i * 8..i * 8 + 8].copy_from_slice(&splitmix(s).to_le_bytes());
    }
    b
}

fn rand_point(s: &mut u64) -> Pt {
    loop {
        if let Some(p) = Pt::decode(&rand32(s)) {
            return p;
        }
    }
}

/// Returns the number of individual checks performed, or a description of the first failure.
pub fn run() -> Result<u64, String> {
    let mut n = 0u64;
    macro_rules! chk {
        ($c:expr, $($m:tt)*) => {
            n += 1;
            if !($c) {
                return Err(format!($($m)*));
            }
        };
    }
    let mut seed = 0x5e1f_c4ec_u64;

    // --- integers and fields
    let l_hex = unhex("edd3f55c1a631258d69cf7a2def9de1400000000000000000000000000000010");
    chk!(sc::l().to_le_bytes()[..] == l_hex[..], "l constant");
    chk!(P.to_le_bytes()[0] == 0xed && P.to_le_bytes()[31] == 0x7f, "p constant");
    for _ in 0..200 {
        let a = Fp::from_bytes(&rand32(&mut seed));
        let b = Fp::from_bytes(&rand32(&mut seed));
        chk!(a.mul(&b) == a.mul_slow(&b), "fold multiplication != long-division multiplication");
        chk!(a.add(&b).sub(&b) == a, "add/sub");
        if !a.is_zero() {
            chk!(a.mul(&a.inv()) == Fp::ONE, "inverse");
        }
        if let Some(r) = a.sq().sqrt() {
            chk!(r.sq() == a.sq() && !r.is_negative(), "sqrt of a square");
        } else {
            return Err("square has no root".into());
        }
    }
    // extreme values through the fold
    let pm1 = Fp(P.sub_borrow(&U256::ONE).0);
    chk!(pm1.mul(&pm1) == Fp::ONE, "(-1)^2");
    chk!(pm1.mul(&pm1) == pm1.mul_slow(&pm1), "fold at p-1");
    chk!(Fp::sqrt_m1().sq() == pm1, "sqrt(-1)^2 = -1");
    chk!(Fp::ZERO.inv().is_zero(), "0^-1 = 0");
    chk!(Fp::from_bytes(&[0xff; 32]) == Fp::from_u64(18), "2^255-1 mod p = 18");
    for _ in 0..50 {
        let a = Sc::from_bytes_mod_order(&rand32(&mut seed));
        if a != Sc::ZERO {
            chk!(a.mul(&a.inv()) == Sc::ONE, "scalar inverse");
        }
    }

    // --- curve
    let b = ed::basepoint();
    chk!(b.on_curve(), "base point on curve");
    chk!(
        hex(&b.encode()) == "5866666666666666666666666666666666666666666666666666666666666666",
        "base point encoding"
    );
    chk!(b.mul_u256(&sc::l()).is_identity(), "l*B = 0");
    let t = ed::torsion();
    for i in 0..8 {
        chk!(t[i].on_curve() && t[i].mul8().is_identity(), "torsion point {}", i);
        for j in 0..i {
            chk!(t[i] != t[j], "torsion points distinct");
        }
    }
    chk!(t[4] == Pt { x: Fp::ZERO, y: Fp::ONE.neg() }, "order-2 point is (0,-1)");
    let td = ed::torsion_table_documented();
    chk!(!td[1].dbl().dbl().is_identity() && td[1].mul8().is_identity(), "documented torsion generator has exact order 8");
    for i in 0..8 {
        chk!(t.contains(&td[i]), "documented torsion table inside the derived E[8]");
    }
    chk!(t[2].y.is_zero() && t[6].y.is_zero(), "order-4 points have y = 0");
    for _ in 0..12 {
        let p = rand_point(&mut seed);
        let q = rand_point(&mut seed);
        let r = rand_point(&mut seed);
        chk!(p.add(&q).on_curve(), "closure");
        chk!(p.add(&q).add(&r) == p.add(&q.add(&r)), "associativity");
        chk!(p.add(&q) == q.add(&p), "commutativity");
        chk!(p.add(&p.neg()).is_identity(), "inverse");
        let k = rand32(&mut seed);
        chk!(p.mul_le(&k) == p.mul_le_affine(&k), "extended-coordinate mul == affine mul");
        chk!(Pt::decode(&p.encode()) == Some(p), "decode(encode)");
        chk!(p.mul_u256(&sc::l()).mul8().is_identity(), "8l*P = 0");
        let e = p.to_ext().add(&q.to_ext()).to_affine();
        chk!(e == p.add(&q), "extended add == affine add");
        chk!(p.to_ext().dbl().to_affine() == p.dbl(), "extended dbl == affine dbl");
        // exceptional pairs through the extended formulas
        for tp in t.iter() {
            chk!(p.to_ext().add(&p.add(tp).to_ext()).to_affine() == p.add(&p.add(tp)), "ext add with torsion");
            chk!(tp.to_ext().add(&tp.to_ext()).to_affine() == tp.dbl(), "ext add of torsion to itself");
        }
    }

    // --- spec vectors
    let mut counts = [0usize; 6];
    for line in VECTORS.lines() {
        let f: Vec<&str> = line.split_whitespace().collect();
        if f.is_empty() {
            continue;
        }
        match f[0] {
            "ed25519" => {
                let sk = arr32(&unhex(f[1]));
                let pk = unhex(f[2]);
                let msg = if f[3] == "-" { vec![] } else { unhex(f[3]) };
                let sig = unhex(f[4]);
                chk!(eddsa::public_key(&sk)[..] == pk[..], "RFC 8032 public key ({})", f[1]);
                chk!(eddsa::sign(&sk, &msg)[..] == sig[..], "RFC 8032 signature ({})", f[1]);
                for strict in [false, true] {
                    let v = eddsa::verify(
                        &mut eddsa::RealSha512,
                        &arr32(&pk),
                        &msg,
                        &arr64(&sig),
                        None,
                        eddsa::VerifyMode { strict, legacy: false },
                    );
                    chk!(v.ok(), "RFC 8032 verify");
                }
                let mut bad = arr64(&sig);
                bad[3] ^= 1;
                let v = eddsa::verify(
                    &mut eddsa::RealSha512,
                    &arr32(&pk),
                    &msg,
                    &bad,
                    None,
                    eddsa::VerifyMode { strict: false, legacy: false },
                );
                chk!(!v.ok(), "damaged signature rejected");
                counts[0] += 1;
            }
            "ed25519ph" => {
                let sk = arr32(&unhex(f[1]));
                let msg = unhex(f[3]);
                let ph = eddsa::sha512(&[&msg]);
                chk!(eddsa::public_key(&sk)[..] == unhex(f[2])[..], "ph public key");
                chk!(eddsa::sign_ph(&sk, &ph, b"")[..] == unhex(f[4])[..], "Ed25519ph signature");
                counts[1] += 1;
            }
            "x25519" => {
                let out = x25519::x25519(&arr32(&unhex(f[1])), &arr32(&unhex(f[2])));
                chk!(out[..] == unhex(f[3])[..], "RFC 7748 vector {}", f[1]);
                counts[2] += 1;
            }
            "x25519_iter" => {
                let iters: usize = f[1].parse().unwrap();
                let mut k = x25519::basepoint_u();
                let mut u = x25519::basepoint_u();
                for _ in 0..iters {
                    let r = x25519::x25519(&k, &u);
                    u = k;
                    k = r;
                }
                chk!(k[..] == unhex(f[2])[..], "RFC 7748 iterated {}", iters);
                counts[3] += 1;
            }
            "ristretto_mult" => {
                let i: u64 = f[1].parse().unwrap();
                let p = b.mul_u256(&U256::from_u64(i));
                let enc = unhex(f[2]);
                chk!(ristretto::encode(&p)[..] == enc[..], "ristretto encoding of {}B", i);
                let dec = ristretto::decode(&arr32(&enc));
                chk!(dec.is_some(), "ristretto decode of {}B", i);
                chk!(ristretto::equal(&dec.unwrap(), &p), "ristretto decode equals {}B", i);
                counts[4] += 1;
            }
            "ristretto_map" => {
                let p = ristretto::from_uniform_bytes(&arr64(&unhex(f[1])));
                chk!(p.on_curve(), "map output on curve");
                chk!(ristretto::encode(&p)[..] == unhex(f[2])[..], "ristretto one-way map vector");
                counts[5] += 1;
            }
            other => return Err(format!("unknown vector kind {}", other)),
        }
    }
    chk!(counts.iter().all(|&c| c > 0), "every vector family present: {:?}", counts);

    // --- ristretto invariants
    let t4 = [t[0], t[2], t[4], t[6]];
    for _ in 0..10 {
        let p = rand_point(&mut seed).dbl(); // in 2E
        let e = ristretto::encode(&p);
        for tp in t4.iter() {
            chk!(ristretto::encode(&p.add(tp)) == e, "coset representatives encode identically");
            chk!(ristretto::equal(&p.add(tp), &p), "coset representatives equal");
        }
        let dp = ristretto::decode(&e);
        chk!(dp.is_some() && ristretto::encode(&dp.unwrap()) == e, "ristretto round trip");
        chk!(!ristretto::equal(&p, &p.add(&b.dbl())), "different elements differ");
    }
    // non-canonical / negative s rejected
    let mut neg_s = Fp::ONE.neg().to_bytes();
    chk!(ristretto::decode(&neg_s).is_none(), "negative s rejected");
    neg_s = P.to_le_bytes();
    chk!(ristretto::decode(&neg_s).is_none(), "s = p rejected");
    chk!(ristretto::decode(&[0u8; 32]) == Some(Pt::IDENTITY), "ristretto identity");

    // --- Montgomery / Edwards maps
    chk!(Pt::IDENTITY.to_montgomery_u().is_zero(), "identity -> u = 0");
    chk!(b.to_montgomery_u() == Fp::from_u64(9), "B -> u = 9");
    chk!(x25519::to_edwards(&Fp::ONE.neg().to_bytes(), 0).is_none(), "u = -1 rejected");
    chk!(x25519::to_edwards(&x25519::basepoint_u(), 0) == Some(b), "u = 9 -> B");
    for _ in 0..6 {
        let p = rand_point(&mut seed);
        let k = rand32(&mut seed);
        let u = p.to_montgomery_u().to_bytes();
        chk!(
            x25519::mul_le(&u, &k) == p.mul_le(&k).to_montgomery_u().to_bytes(),
            "ladder == Edwards multiplication"
        );
    }
    Ok(n)
}

#[cfg(test)]
mod tests {
    #[test]
    fn selfcheck() {
        let n = super::run().unwrap();
        assert!(n > 500);
    }
}
