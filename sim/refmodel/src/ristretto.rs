//! ristretto255 per RFC 9496, transcribed.

use crate::ed::{d, Pt};
use crate::fp::Fp;

pub struct Consts {
    pub sqrt_m1: Fp,
    pub sqrt_ad_minus_one: Fp,
    pub invsqrt_a_minus_d: Fp,
    pub one_minus_d_sq: Fp,
    pub d_minus_one_sq: Fp,
}

pub fn consts() -> &'static Consts {
    static C: std::sync::OnceLock<Consts> = std::sync::OnceLock::new();
    C.get_or_init(|| {
        let dd = d();
        let a = Fp::ONE.neg();
        // sqrt(a*d - 1): RFC 9496 lists the root whose canonical encoding is odd ("negative")
        let r = a.mul(&dd).sub(&Fp::ONE).sqrt().expect("ad-1 is a square");
        let sqrt_ad_minus_one = if r.is_negative() { r } else { r.neg() };
        // 1/sqrt(a-d): RFC lists the even root
        let (ok, inv) = Fp::sqrt_ratio_m1(&Fp::ONE, &a.sub(&dd));
        assert!(ok);
        Consts {
            sqrt_m1: Fp::sqrt_m1(),
            sqrt_ad_minus_one,
            invsqrt_a_minus_d: inv,
            one_minus_d_sq: Fp::ONE.sub(&dd.sq()),
            d_minus_one_sq: dd.sub(&Fp::ONE).sq(),
        }
    })
}

/// RFC 9496 4.3.1 Decode. Returns an Edwards representative.
pub fn decode(b: &[u8; 32]) -> Option<Pt> {
    // canonical: top bit clear and value < p; and non-negative
    if b[31] & 0x80 != 0 || !Fp::bytes_are_canonical(b) {
        return None;
    }
    let s = Fp::from_bytes(b);
    if s.is_negative() {
        return None;
    }
    let ss = s.sq();
    let u1 = Fp::ONE.sub(&ss);
    let u2 = Fp::ONE.add(&ss);
    let u2_sqr = u2.sq();
    let v = d().mul(&u1.sq()).neg().sub(&u2_sqr);
    let (was_square, invsqrt) = Fp::sqrt_ratio_m1(&Fp::ONE, &v.mul(&u2_sqr));
    let den_x = invsqrt.mul(&u2);
    let den_y = invsqrt.mul(&den_x).mul(&v);
    let x = s.add(&s).mul(&den_x).abs();
    let y = u1.mul(&den_y);
    let t = x.mul(&y);
    if !was_square || t.is_negative() || y.is_zero() {
        return None;
    }
    Some(Pt { x, y })
}

/// RFC 9496 4.3.2 Encode, from any Edwards representative in the even subgroup 2E.
pub fn encode(p: &Pt) -> [u8; 32] {
    let c = consts();
    let (x0, y0, z0, t0) = (p.x, p.y, Fp::ONE, p.x.mul(&p.y));
    let u1 = z0.add(&y0).mul(&z0.sub(&y0));
    let u2 = x0.mul(&y0);
    let (_, invsqrt) = Fp::sqrt_ratio_m1(&Fp::ONE, &u1.mul(&u2.sq()));
    let den1 = invsqrt.mul(&u1);
    let den2 = invsqrt.mul(&u2);
    let z_inv = den1.mul(&den2).mul(&t0);
    let ix0 = x0.mul(&c.sqrt_m1);
    let iy0 = y0.mul(&c.sqrt_m1);
    let enchanted = den1.mul(&c.invsqrt_a_minus_d);
    let rotate = t0.mul(&z_inv).is_negative();
    let (x, mut y, den_inv) = if rotate { (iy0, ix0, enchanted) } else { (x0, y0, den2) };
    if x.mul(&z_inv).is_negative() {
        y = y.neg();
    }
    let s = den_inv.mul(&z0.sub(&y)).abs();
    s.to_bytes()
}

pub fn equal(p: &Pt, q: &Pt) -> bool {
    // x1*y2 == y1*x2 or y1*y2 == x1*x2
    p.x.mul(&q.y) == p.y.mul(&q.x) || p.y.mul(&q.y) == p.x.mul(&q.x)
}

/// RFC 9496 4.3.4 MAP
pub fn map(t: &[u8; 32]) -> Pt {
    let c = consts();
    let dd = d();
    let t = Fp::from_bytes(t); // masks bit 255, reduces mod p
    let r = c.sqrt_m1.mul(&t.sq());
    let u = r.add(&Fp::ONE).mul(&c.one_minus_d_sq);
    let v = Fp::ONE.neg().sub(&r.mul(&dd)).mul(&r.add(&dd));
    let (was_square, mut s) = Fp::sqrt_ratio_m1(&u, &v);
    let s_prime = s.mul(&t).abs().neg();
    let mut cc = Fp::ONE.neg();
    if !was_square {
        s = s_prime;
        cc = r;
    }
    let n = cc.mul(&r.sub(&Fp::ONE)).mul(&c.d_minus_one_sq).sub(&v);
    let w0 = s.add(&s).mul(&v);
    let w1 = n.mul(&c.sqrt_ad_minus_one);
    let w2 = Fp::ONE.sub(&s.sq());
    let w3 = Fp::ONE.add(&s.sq());
    // (w0*w3, w2*w1, w1*w3, w0*w2) extended -> affine
    let z = w1.mul(&w3);
    let zi = z.inv();
    Pt { x: w0.mul(&w3).mul(&zi), y: w2.mul(&w1).mul(&zi) }
}

/// Element derivation from 64 uniform bytes (RFC 9496 4.3.4)
pub fn from_uniform_bytes(b: &[u8; 64]) -> Pt {
    let mut lo = [0u8; 32];
    let mut hi = [0u8; 32];
    lo.copy_from_slice(&b[..32]);
    hi.copy_from_slice(&b[32..]);
    map(&lo).add(&map(&hi))
}
