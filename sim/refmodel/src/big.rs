//! Plain multi-word unsigned integers. Little-endian u64 words. Nothing clever.

#[derive(Clone, Copy, PartialEq, Eq, Debug, Hash, PartialOrd, Ord, Default)]
pub struct U256(pub [u64; 4]);

pub type U512 = [u64; 8];

impl U256 {
    pub const ZERO: U256 = U256([0; 4]);
    pub const ONE: U256 = U256([1, 0, 0, 0]);

    pub fn from_u64(v: u64) -> U256 {
        U256([v, 0, 0, 0])
    }

    pub fn from_le_bytes(b: &[u8; 32]) -> U256 {
        let mut w = [0u64; 4];
        for i in 0..4 {
            let mut x = 0u64;
            for j in 0..8 {
                x |= (b[i * 8 + j] as u64) << (8 * j);
            }
            w[i] = x;
        }
        U256(w)
    }

    pub fn to_le_bytes(&self) -> [u8; 32] {
        let mut b = [0u8; 32];
        for i in 0..4 {
            for j in 0..8 {
                b[i * 8 + j] = (self.0[i] >> (8 * j)) as u8;
            }
        }
        b
    }

    /// Parse a decimal literal (used for spec constants).
    pub fn from_dec(s: &str) -> U256 {
        let mut r = U256::ZERO;
        for c in s.bytes() {
            assert!(c.is_ascii_digit());
            let (m, hi) = r.mul_small(10);
            assert_eq!(hi, 0);
            let (a, c2) = m.add_carry(&U256::from_u64((c - b'0') as u64));
            assert!(!c2);
            r = a;
        }
        r
    }

    pub fn mul_small(&self, k: u64) -> (U256, u64) {
        let mut out = [0u64; 4];
        let mut carry = 0u128;
        for i in 0..4 {
            let t = (self.0[i] as u128) * (k as u128) + carry;
            out[i] = t as u64;
            carry = t >> 64;
        }
        (U256(out), carry as u64)
    }

    pub fn is_zero(&self) -> bool {
        self.0 == [0; 4]
    }

    pub fn bit(&self, i: usize) -> bool {
        (self.0[i / 64] >> (i % 64)) & 1 == 1
    }

    pub fn add_carry(&self, o: &U256) -> (U256, bool) {
        let mut out = [0u64; 4];
        let mut c = 0u128;
        for i in 0..4 {
            let t = self.0[i] as u128 + o.0[i] as u128 + c;
            out[i] = t as u64;
            c = t >> 64;
        }
        (U256(out), c != 0)
    }

    pub fn sub_borrow(&self, o: &U256) -> (U256, bool) {
        let mut out = [0u64; 4];
        let mut b = 0i128;
        for i in 0..4 {
            let t = self.0[i] as i128 - o.0[i] as i128 - b;
            if t < 0 {
                out[i] = (t + (1i128 << 64)) as u64;
                b = 1;
            } else {
                out[i] = t as u64;
                b = 0;
            }
        }
        (U256(out), b != 0)
    }

    /// numeric comparison
    pub fn lt(&self, o: &U256) -> bool {
        for i in (0..4).rev() {
            if self.0[i] != o.0[i] {
                return self.0[i] < o.0[i];
            }
        }
        false
    }

    pub fn ge(&self, o: &U256) -> bool {
        !self.lt(o)
    }

    pub fn shr(&self, n: usize) -> U256 {
        let mut out = [0u64; 4];
        let ws = n / 64;
        let bs = n % 64;
        for i in 0..4 {
            if i + ws < 4 {
                let mut v = self.0[i + ws] >> bs;
                if bs > 0 && i + ws + 1 < 4 {
                    v |= self.0[i + ws + 1] << (64 - bs);
                }
                out[i] = v;
            }
        }
        U256(out)
    }

    pub fn mul_wide(&self, o: &U256) -> U512 {
        let mut out = [0u64; 8];
        for i in 0..4 {
            let mut carry = 0u128;
            for j in 0..4 {
                let t = (self.0[i] as u128) * (o.0[j] as u128) + out[i + j] as u128 + carry;
                out[i + j] = t as u64;
                carry = t >> 64;
            }
            out[i + 4] = carry as u64;
        }
        out
    }
}

pub fn wide_from_le_bytes(b: &[u8; 64]) -> U512 {
    let mut w = [0u64; 8];
    for i in 0..8 {
        let mut x = 0u64;
        for j in 0..8 {
            x |= (b[i * 8 + j] as u64) << (8 * j);
        }
        w[i] = x;
    }
    w
}

pub fn widen(a: &U256) -> U512 {
    let mut w = [0u64; 8];
    w[..4].copy_from_slice(&a.0);
    w
}

/// x mod m by binary long division (shift-subtract), m != 0. Slow and obviously right.
pub fn reduce_wide(x: &U512, m: &U256) -> U256 {
    // remainder r kept < m < 2^256; one extra bit handled via carry flag
    let mut r = U256::ZERO;
    for i in (0..512).rev() {
        let top = r.bit(255);
        // r = r*2 + bit
        let mut nr = [0u64; 4];
        for k in (0..4).rev() {
            nr[k] = (r.0[k] << 1) | if k > 0 { r.0[k - 1] >> 63 } else { 0 };
        }
        nr[0] |= (x[i / 64] >> (i % 64)) & 1;
        r = U256(nr);
        if top {
            // true value is r + 2^256 >= m ; subtract m (wrapping gives the right residue since result < m < 2^256)
            let (d, _) = r.sub_borrow(m);
            r = d;
        } else if r.ge(m) {
            let (d, _) = r.sub_borrow(m);
            r = d;
        }
    }
    r
}

pub fn reduce(x: &U256, m: &U256) -> U256 {
    reduce_wide(&widen(x), m)
}

pub fn mulmod(a: &U256, b: &U256, m: &U256) -> U256 {
    reduce_wide(&a.mul_wide(b), m)
}

pub fn addmod(a: &U256, b: &U256, m: &U256) -> U256 {
    // a,b < m
    let (s, c) = a.add_carry(b);
    if c || s.ge(m) {
        s.sub_borrow(m).0
    } else {
        s
    }
}

pub fn submod(a: &U256, b: &U256, m: &U256) -> U256 {
    let (d, bo) = a.sub_borrow(b);
    if bo {
        d.add_carry(m).0
    } else {
        d
    }
}

/// little-endian byte string (any length) -> bits, most significant first
pub fn bits_msb_first(le: &[u8]) -> Vec<bool> {
    let mut v = Vec::with_capacity(le.len() * 8);
    for byte in le.iter().rev() {
        for j in (0..8).rev() {
            v.push((byte >> j) & 1 == 1);
        }
    }
    v
}
