//! Reference model for the curve25519-dalek simulation: exact integer arithmetic, affine curve
//! law, RFC 8032 / 7748 / 9496. No dependency on the code under test.

pub mod big;
pub mod ed;
pub mod eddsa;
pub mod fp;
pub mod ristretto;
pub mod sc;
pub mod selfcheck;
pub mod x25519;

pub use big::U256;
pub use ed::Pt;
pub use fp::Fp;
pub use sc::Sc;

pub fn hex(b: &[u8]) -> String {
    let mut s = String::with_capacity(b.len() * 2);
    for x in b {
        s.push_str(&format!("{:02x}", x));
    }
    s
}

pub fn unhex(s: &str) -> Vec<u8> {
    let s: Vec<u8> = s.bytes().filter(|c| !c.is_ascii_whitespace()).collect();
    assert!(s.len() % 2 == 0, "odd hex length");
    let nib = |c: u8| -> u8 {
        match c {
            b'0'..=b'9' => c - b'0',
            b'a'..=b'f' => c - b'a' + 10,
            b'A'..=b'F' => c - b'A' + 10,
            _ => panic!("bad hex"),
        }
    };
    s.chunks(2).map(|p| (nib(p[0]) << 4) | nib(p[1])).collect()
}

pub fn arr32(v: &[u8]) -> [u8; 32] {
    let mut a = [0u8; 32];
    a.copy_from_slice(v);
    a
}

pub fn arr64(v: &[u8]) -> [u8; 64] {
    let mut a = [0u8; 64];
    a.copy_from_slice(v);
    a
}
