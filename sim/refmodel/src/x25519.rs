//! RFC 7748 X25519 and the generic Montgomery ladder, plus the birational maps.

use crate::ed::Pt;
use crate::fp::Fp;
use crate::sc::clamp;

/// The RFC 7748 ladder over an arbitrary bit string (most significant bit first), on the
/// u-coordinate given as a field element. Returns x2 * z2^(p-2).
pub fn ladder_bits(u: &Fp, bits: &[bool]) -> Fp {
    let a24 = Fp::from_u64(121665);
    let x1 = *u;
    let mut x2 = Fp::ONE;
    let mut z2 = Fp::ZERO;
    let mut x3 = *u;
    let mut z3 = Fp::ONE;
    let mut swap = false;
    for &kt in bits {
        swap ^= kt;
        if swap {
            core::mem::swap(&mut x2, &mut x3);
            core::mem::swap(&mut z2, &mut z3);
        }
        swap = kt;
        let a = x2.add(&z2);
        let aa = a.sq();
        let b = x2.sub(&z2);
        let bb = b.sq();
        let e = aa.sub(&bb);
        let c = x3.add(&z3);
        let d = x3.sub(&z3);
        let da = d.mul(&a);
        let cb = c.mul(&b);
        x3 = da.add(&cb).sq();
        z3 = x1.mul(&da.sub(&cb).sq());
        x2 = aa.mul(&bb);
        z2 = e.mul(&aa.add(&a24.mul(&e)));
    }
    if swap {
        core::mem::swap(&mut x2, &mut x3);
        core::mem::swap(&mut z2, &mut z3);
    }
    x2.mul(&z2.inv())
}

/// [k]u for the integer k given as little-endian bytes (no clamping), u decoded per RFC 7748.
pub fn mul_le(u: &[u8; 32], k_le: &[u8]) -> [u8; 32] {
    let bits = crate::big::bits_msb_first(k_le);
    ladder_bits(&Fp::from_bytes(u), &bits).to_bytes()
}

/// X25519(k, u) of RFC 7748 section 5
pub fn x25519(k: &[u8; 32], u: &[u8; 32]) -> [u8; 32] {
    mul_le(u, &clamp(k))
}

pub fn basepoint_u() -> [u8; 32] {
    let mut b = [0u8; 32];
    b[0] = 9;
    b
}

/// Montgomery u -> Edwards point with the given sign of x; None for u = -1 and for twist points.
pub fn to_edwards(u: &[u8; 32], sign: u8) -> Option<Pt> {
    let uf = Fp::from_bytes(u);
    if uf == Fp::ONE.neg() {
        return None;
    }
    let y = uf.sub(&Fp::ONE).div(&uf.add(&Fp::ONE));
    let mut yb = y.to_bytes();
    yb[31] ^= sign << 7;
    Pt::decode(&yb)
}

/// Is u the u-coordinate of a point on the curve (not the twist)?  v^2 = u^3 + A u^2 + u
pub fn on_curve(u: &Fp) -> bool {
    let a = Fp::from_u64(486662);
    let rhs = u.sq().mul(u).add(&a.mul(&u.sq())).add(u);
    rhs.sqrt().is_some()
}
