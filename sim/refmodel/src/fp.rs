//! GF(2^255 - 19). Values are always kept fully reduced (< p).

use crate::big::*;

#[derive(Clone, Copy, PartialEq, Eq, Debug, Hash, PartialOrd, Ord)]
pub struct Fp(pub U256);

pub const P: U256 = U256([
    0xffff_ffff_ffff_ffed,
    0xffff_ffff_ffff_ffff,
    0xffff_ffff_ffff_ffff,
    0x7fff_ffff_ffff_ffff,
]);

impl Fp {
    pub const ZERO: Fp = Fp(U256::ZERO);
    pub const ONE: Fp = Fp(U256::ONE);

    pub fn from_u64(v: u64) -> Fp {
        Fp(U256::from_u64(v))
    }

    /// Any 256-bit integer, reduced mod p.
    pub fn from_u256(v: &U256) -> Fp {
        let mut x = *v;
        while x.ge(&P) {
            x = x.sub_borrow(&P).0;
        }
        Fp(x)
    }

    /// Decoding as the library's statement puts it: bit 255 ignored, value reduced mod p.
    pub fn from_bytes(b: &[u8; 32]) -> Fp {
        let mut c = *b;
        c[31] &= 0x7f;
        Fp::from_u256(&U256::from_le_bytes(&c))
    }

    /// Is the 255-bit value (bit 255 masked) already < p ?
    pub fn bytes_are_canonical(b: &[u8; 32]) -> bool {
        let mut c = *b;
        c[31] &= 0x7f;
        U256::from_le_bytes(&c).lt(&P)
    }

    pub fn to_bytes(&self) -> [u8; 32] {
        self.0.to_le_bytes()
    }

    pub fn is_zero(&self) -> bool {
        self.0.is_zero()
    }

    /// "negative" = least significant bit of the canonical encoding
    pub fn is_negative(&self) -> bool {
        self.0 .0[0] & 1 == 1
    }

    pub fn add(&self, o: &Fp) -> Fp {
        Fp(addmod(&self.0, &o.0, &P))
    }

    pub fn sub(&self, o: &Fp) -> Fp {
        Fp(submod(&self.0, &o.0, &P))
    }

    pub fn neg(&self) -> Fp {
        Fp::ZERO.sub(self)
    }

    pub fn abs(&self) -> Fp {
        if self.is_negative() {
            self.neg()
        } else {
            *self
        }
    }

    /// product, reduced using 2^256 = 38 (mod p). Cross-checked against long division in selfcheck.
    pub fn mul(&self, o: &Fp) -> Fp {
        let w = self.0.mul_wide(&o.0);
        let lo = U256([w[0], w[1], w[2], w[3]]);
        let hi = U256([w[4], w[5], w[6], w[7]]);
        let (h38, top) = hi.mul_small(38); // hi*38 = h38 + top*2^256
        let (s, c) = lo.add_carry(&h38);
        // total = s + (c + top) * 2^256 ; (c+top) <= 38
        let extra = (top + c as u64) * 38;
        let (s2, c2) = s.add_carry(&U256::from_u64(extra));
        let mut r = s2;
        if c2 {
            // wrapped once more: add 38
            r = r.add_carry(&U256::from_u64(38)).0;
        }
        Fp::from_u256(&r)
    }

    pub fn mul_slow(&self, o: &Fp) -> Fp {
        Fp(mulmod(&self.0, &o.0, &P))
    }

    pub fn sq(&self) -> Fp {
        self.mul(self)
    }

    pub fn pow(&self, e: &U256) -> Fp {
        let mut r = Fp::ONE;
        for i in (0..256).rev() {
            r = r.sq();
            if e.bit(i) {
                r = r.mul(self);
            }
        }
        r
    }

    /// inverse, with 0 -> 0
    pub fn inv(&self) -> Fp {
        let e = P.sub_borrow(&U256::from_u64(2)).0;
        self.pow(&e)
    }

    pub fn div(&self, o: &Fp) -> Fp {
        self.mul(&o.inv())
    }

    pub fn sqrt_m1() -> Fp {
        // 2^((p-1)/4)
        static I: std::sync::OnceLock<Fp> = std::sync::OnceLock::new();
        *I.get_or_init(|| {
            let e = P.sub_borrow(&U256::ONE).0.shr(2);
            Fp::from_u64(2).pow(&e)
        })
    }

    /// Some(non-negative root) if self is a square.
    pub fn sqrt(&self) -> Option<Fp> {
        // p = 5 mod 8: candidate = a^((p+3)/8)
        let e = P.add_carry(&U256::from_u64(3)).0.shr(3);
        let c = self.pow(&e);
        let c2 = c.sq();
        if c2 == *self {
            Some(c.abs())
        } else if c2 == self.neg() {
            Some(c.mul(&Fp::sqrt_m1()).abs())
        } else {
            None
        }
    }

    /// RFC 9496 SQRT_RATIO_M1(u, v) -> (was_square, r)
    pub fn sqrt_ratio_m1(u: &Fp, v: &Fp) -> (bool, Fp) {
        let i = Fp::sqrt_m1();
        let v3 = v.sq().mul(v);
        let v7 = v3.sq().mul(v);
        let e = P.sub_borrow(&U256::from_u64(5)).0.shr(3); // (p-5)/8
        let mut r = u.mul(&v3).mul(&u.mul(&v7).pow(&e));
        let check = v.mul(&r.sq());
        let correct = check == *u;
        let flipped = check == u.neg();
        let flipped_i = check == u.neg().mul(&i);
        if flipped || flipped_i {
            r = r.mul(&i);
        }
        (correct || flipped, r.abs())
    }
}
