//! Ed25519 / Ed25519ph per RFC 8032, and the acceptance predicate as property C09 states it.

use crate::ed::{basepoint, Pt};
use crate::sc::{clamp, Sc};
use sha2::{Digest, Sha512};

/// A 512-bit hash applied to the concatenation of `parts`. SHA-512 normally; the simulator's
/// chosen-output stub when a Byzantine party drives a digest-generic API.
pub trait H512 {
    fn hash(&mut self, parts: &[&[u8]]) -> [u8; 64];
}

pub struct RealSha512;
impl H512 for RealSha512 {
    fn hash(&mut self, parts: &[&[u8]]) -> [u8; 64] {
        let mut h = Sha512::new();
        for p in parts {
            h.update(p);
        }
        let mut o = [0u8; 64];
        o.copy_from_slice(&h.finalize());
        o
    }
}

pub fn sha512(parts: &[&[u8]]) -> [u8; 64] {
    RealSha512.hash(parts)
}

pub const DOM2_PREFIX: &[u8] = b"SigEd25519 no Ed25519 collisions";

/// (clamped scalar bytes, hash prefix) of a seed
pub fn expand(seed: &[u8; 32]) -> ([u8; 32], [u8; 32]) {
    let h = sha512(&[seed]);
    let mut lo = [0u8; 32];
    let mut hi = [0u8; 32];
    lo.copy_from_slice(&h[..32]);
    hi.copy_from_slice(&h[32..]);
    (clamp(&lo), hi)
}

pub fn public_from_scalar_bytes(a_le: &[u8; 32]) -> [u8; 32] {
    basepoint().mul_le(a_le).encode()
}

pub fn public_key(seed: &[u8; 32]) -> [u8; 32] {
    public_from_scalar_bytes(&expand(seed).0)
}

/// dom2(1, ctx) for Ed25519ph, empty for pure Ed25519
fn dom(ctx: Option<&[u8]>) -> Vec<u8> {
    match ctx {
        None => Vec::new(),
        Some(c) => {
            let mut v = DOM2_PREFIX.to_vec();
            v.push(1);
            v.push(c.len() as u8);
            v.extend_from_slice(c);
            v
        }
    }
}

/// Signature with secret scalar `a` (integer mod l), nonce prefix, public key bytes as given.
/// `msg` is the message (pure) or the 64-byte prehash (ph; then `ctx` is Some).
pub fn sign_expanded(
    h: &mut dyn H512,
    a: &Sc,
    prefix: &[u8; 32],
    pk: &[u8; 32],
    msg: &[u8],
    ctx: Option<&[u8]>,
) -> [u8; 64] {
    let d = dom(ctx);
    let r = Sc::from_wide(&h.hash(&[&d, prefix, msg]));
    let rr = basepoint().mul_le(&r.to_bytes()).encode();
    let k = Sc::from_wide(&h.hash(&[&d, &rr, pk, msg]));
    let s = k.mul(a).add(&r);
    let mut sig = [0u8; 64];
    sig[..32].copy_from_slice(&rr);
    sig[32..].copy_from_slice(&s.to_bytes());
    sig
}

pub fn sign(seed: &[u8; 32], msg: &[u8]) -> [u8; 64] {
    let (a, prefix) = expand(seed);
    let pk = public_from_scalar_bytes(&a);
    sign_expanded(&mut RealSha512, &Sc::from_bytes_mod_order(&a), &prefix, &pk, msg, None)
}

pub fn sign_ph(seed: &[u8; 32], prehash: &[u8; 64], ctx: &[u8]) -> [u8; 64] {
    let (a, prefix) = expand(seed);
    let pk = public_from_scalar_bytes(&a);
    sign_expanded(&mut RealSha512, &Sc::from_bytes_mod_order(&a), &prefix, &pk, prehash, Some(ctx))
}

#[derive(Clone, Copy, Debug, PartialEq, Eq)]
pub struct VerifyMode {
    pub strict: bool,
    /// legacy_compatibility build: only the top three bits of S are checked
    pub legacy: bool,
}

#[derive(Clone, Copy, Debug, PartialEq, Eq)]
pub enum Verdict {
    Accept,
    RejectKeyUndecodable,
    RejectS,
    RejectStrictRUndecodable,
    RejectStrictSmallOrder,
    RejectEquation,
}

impl Verdict {
    pub fn ok(&self) -> bool {
        *self == Verdict::Accept
    }
}

/// The predicate of C09. `msg` is the message or the prehash; `ctx` Some(..) for the ph variants.
pub fn verify(
    h: &mut dyn H512,
    key: &[u8; 32],
    msg: &[u8],
    sig: &[u8; 64],
    ctx: Option<&[u8]>,
    mode: VerifyMode,
) -> Verdict {
    let a = match Pt::decode(key) {
        Some(a) => a,
        None => return Verdict::RejectKeyUndecodable,
    };
    verify_with_point(h, key, &a, msg, sig, ctx, mode)
}

pub fn verify_with_point(
    h: &mut dyn H512,
    key: &[u8; 32],
    a: &Pt,
    msg: &[u8],
    sig: &[u8; 64],
    ctx: Option<&[u8]>,
    mode: VerifyMode,
) -> Verdict {
    let mut rb = [0u8; 32];
    let mut sb = [0u8; 32];
    rb.copy_from_slice(&sig[..32]);
    sb.copy_from_slice(&sig[32..]);
    if mode.legacy {
        if sb[31] & 224 != 0 {
            return Verdict::RejectS;
        }
    } else if !Sc::is_canonical_bytes(&sb) {
        return Verdict::RejectS;
    }
    if mode.strict {
        match Pt::decode(&rb) {
            None => return Verdict::RejectStrictRUndecodable,
            Some(r) => {
                if r.is_small_order() || a.is_small_order() {
                    return Verdict::RejectStrictSmallOrder;
                }
            }
        }
    }
    let d = dom(ctx);
    let k = Sc::from_wide(&h.hash(&[&d, &rb, key, msg]));
    // [S]B - [k]A with S taken as the integer given (legacy: possibly >= l) and k reduced mod l
    let sb_pt = basepoint().mul_le(&sb);
    let ka = a.mul_le(&k.to_bytes());
    let r2 = sb_pt.sub(&ka);
    if r2.encode() == rb {
        Verdict::Accept
    } else {
        Verdict::RejectEquation
    }
}
