#!/usr/bin/env python3
"""Regenerates MANIFEST.json from the table below (kept in one place so it stays consistent with ./check)."""
import json, subprocess

BUILT = ["C03", "C04", "C05", "C06", "C07", "C08", "C09", "C11", "C13", "C14", "C15", "C16"]   # checks that exist and pass on the unchanged tree

CLAIMS = {
 "C03": dict(level="exploration", ref="DESIGN.md §3 C03",
   text="Seeded simulation of operation histories (20-160 steps) over a register file of Edwards points fed by honest and Byzantine wire encodings; after every step the real library's output is compared with an affine reference model and the raw (X,Y,Z,T) coordinates are checked against the curve equation and Segre relation through the verification hook. Sampling, not proof; right level because the property quantifies over histories and 2^256 encodings.",
   note="Trusts the reference model (validated against RFC vectors at start-up), the hook accessor edwards_coords, rustc. Dispatcher answers are forced through the guarded hook.",
   technique="deterministic simulation: lockstep refinement against an affine reference model over seeded operation histories with Byzantine encodings"),
 "C04": dict(level="exploration", ref="DESIGN.md §3 C04",
   text="Seeded simulation of a multiscalar service: every scalar-multiplication entry point is called on history-built points with dictionary/PRNG scalars, input counts across the Straus/Pippenger and window switches (up to 8200 terms), short-scalar and word-structured scalars, four iterator kinds, None injected into optional streams, and the run-time dispatcher answered by the simulator (serial / AVX2 / IFMA per call); results compared with the reference model's sum of s_i*P_i.",
   note="Trusts the reference model and the dispatcher hook. Unreduced scalars only on entry points documented to accept them.",
   technique="deterministic simulation: environment-controlled dispatcher + injected None/iterator kinds, lockstep against reference sum"),
 "C06": dict(level="exploration", ref="DESIGN.md §3 C06",
   text="Seeded histories over Ristretto handles: Byzantine encodings, one-way map inputs (incl. chosen digest output), group operations, coset re-representation through the hook, batch double-and-compress; every decode additionally through the group-trait unchecked decoder (must agree on accepted encodings, must never hand out a value that re-encodes to other bytes); compared step by step with an RFC 9496 reference model; type invariant (representative in 2E, on curve) checked on raw coordinates.",
   note="Trusts the RFC 9496 transcription validated by the RFC vectors; hook constructors ristretto_inner/ristretto_from_edwards.",
   technique="deterministic simulation: lockstep refinement against RFC 9496 model over seeded histories with coset-representative injection"),
 "C07": dict(level="exploration", ref="DESIGN.md §3 C07",
   text="Simulated X25519 handshakes between 2-4 parties of every key flavour over a lossy, duplicating, reordering, Byzantine network with a simulated RNG; each party's output compared with the RFC 7748 reference on the bytes it actually held; agreement invariant when nothing was rewritten; ladder/bit-string/conversion/equality/hash clauses as extra steps.",
   note="Trusts the RFC 7748 transcription (validated incl. the 1000-iteration vector).",
   technique="deterministic simulation: multi-party handshakes over SimNet with Byzantine u-coordinates, lockstep against RFC 7748 model"),
 "C08": dict(level="exploration", ref="DESIGN.md §3 C08",
   text="Simulated signers (keys from SimRng, wire bytes, key store) answering duplicated/reordered requests in every signing mode with chunked digests and context lengths around 255; outputs compared with the RFC 8032 reference; every signature forwarded undamaged and damaged to verifiers in all modes and to a batch verifier, verdicts compared with the model verifier.",
   note="Trusts the RFC 8032 model (validated by sign.input vectors and the Ed25519ph vector) and sha2.",
   technique="deterministic simulation: signer/verifier parties over SimNet, SimRng and chunked digest seams, lockstep against RFC 8032 model"),
 "C09": dict(level="exploration", ref="DESIGN.md §3 C09",
   text="A Byzantine signer holding the torsion points sends constructed triples (small-order and mixed-order keys and R incl. cases where the verification equation holds, non-canonical encodings, S+jl, bit damage) to verifiers in every mode, in builds with and without legacy_compatibility and under each dispatcher answer; each verdict compared with the reference predicate evaluated exactly.",
   note="Challenge is the hash reduced mod l as the library documents. Trusts the model's predicate.",
   technique="deterministic simulation: Byzantine signer constructions on the wire, verdict-by-verdict comparison with an exact reference predicate"),
 "C13": dict(level="exploration", ref="DESIGN.md §3 C13",
   text="A batch verifier fed by an unreliable network (reorder, duplicate, drop, corrupt) flushes queues of sizes across the algorithm switches (up to 1024, 4100, 8200 and 16400 entries), repeats, permutes and duplicates them; in-domain verdicts compared with the conjunction of reference single verifications, out-of-domain only the promised errors and determinism. Cooperating corruptions (S halves swapped at block distances, crafted S for an undecodable R) and an adaptive adversary that observes the batch coefficients through a guarded seam and shifts two S values so that their errors cancel.",
   note="False Ok for an in-domain bad batch has probability 2^-128 and is ignored.",
   technique="deterministic simulation: queue histories under network faults, metamorphic (repeat/permute/duplicate) plus reference-conjunction oracle"),
 "C14": dict(level="exploration", ref="DESIGN.md §3 C14",
   text="Create/use/drop histories run twice under a deterministic arena allocator with secrets differing in every byte; every freed block compared pairwise (differential taint) and dropped objects scanned for windows of their secrets; dispatcher forced per run; release, debug-assertions and 32-bit-limb builds; multiscalars up to 8200 terms.",
   note="Frees during unwinding and stale stack copies are outside the statement.",
   technique="deterministic simulation: allocator seam with paired-run differential taint on freed blocks and drop-point scanning"),
 "C15": dict(level="exploration", ref="DESIGN.md §3 C15",
   text="Every call on untrusted bytes in every family runs under catch_unwind; a dedicated mix pushes framing and algebraically exceptional inputs through every decoder, verifier, map and conversion listed in the statement.",
   note="Release profile (shipped behaviour).",
   technique="deterministic simulation: no-node-crashes invariant under framing/Byzantine faults on every decoder"),
 "C16": dict(level="fault_enumeration", ref="DESIGN.md §3 C16",
   text="For each sampled value of each serialisable type in bincode (legacy, varint, big-endian options) and JSON: canonical stream and round trip, then complete enumeration of truncations, bit flips, trailing bytes, duplicated blocks, length-prefix edits, JSON token edits (delete / duplicate / append / type confusion / digit insertion / very long sequences / text renderings), boundary payloads (around l and p, structured word-wise) and SimFormat deserializer faults; the typed read must equal the native decoding rule applied to the payload the same stream yields as plain bytes (through the format's own parser), deserialised points must be consistent representations, loaded secret keys must derive the right public half, and every load is repeated through deserialize_in_place into an existing value.",
   note="Values are sampled, fault positions enumerated completely. Trusts bincode/serde_json as byte extractors.",
   technique="fault enumeration on stored encodings with a differential (native decoder) oracle"),
 "C05": dict(level="exploration", ref="DESIGN.md §3 C05",
   text="The same plans (wire, group, disk families) executed in every backend build (simd, 32-bit, fiat, nightly IFMA, tables off, zeroize off), under forced dispatcher answers (always serial / AVX2 / IFMA) and in a bare build without optional features (driver-min, subset of steps); per-step event logs (a hash of every byte and discriminant the library returned) must be identical across configurations. Quick: 800 plans x 9 configurations + bare build.",
   note="Determinism of plan execution is what turns log equality into an oracle; validated by the determinism self-test.",
   technique="deterministic replay of identical plans across build configurations and dispatcher answers, event-log equality"),
 "C11": dict(level="exploration", ref="DESIGN.md §3 C11",
   text="The same plans executed in a build with overflow checks and debug assertions and in release: no panic, identical logs; Byzantine all-ones encodings and long add/sub chains push limbs toward bounds; the public scalar API (operators, ff::Field / PrimeField) is executed on dictionary scalars. Does not decide the worst-case-limb core of the property (stated in DESIGN).",
   note="Limited reach: sampled histories, not a bound proof.",
   technique="deterministic replay of identical plans in checked vs release builds"),
}

NA = {
 "C01": "Pure field arithmetic: pub(crate) functions of their limbs with no seam (no environment decision, no history, no fault); simulating it would only dress input generation in simulator vocabulary (DESIGN.md §3 C01).",
 "C02": "Pure scalar arithmetic over canonical byte strings, quantified over inputs and two compile-time limb widths; no schedule, clock, fault or history for a simulator to control (DESIGN.md §3 C02).",
 "C10": "About the instruction and address trace of compiled code for pairs of secrets; a deterministic simulator controls the environment, it does not observe program counters or addresses (that is trace monitoring / static analysis; rr unavailable) (DESIGN.md §3 C10).",
 "C12": "A finite, fully enumerable audit of constants with no environment, history or fault: deciding it is an exhaustive loop (unit test / proof), not seeded search over schedules and faults (DESIGN.md §3 C12).",
 "C17": "Algebraic identities of trait implementations are pure functions with no seam; the wire-facing half delegates to decoders decided under C03/C06/C09/C16 (DESIGN.md §3 C17).",
}

def main():
    commits = subprocess.run(["git", "-C", "/repo", "log", "--format=%H %s"], capture_output=True, text=True).stdout.splitlines()
    hook_commits = [c.split()[0] for c in commits if " verif hook" in c]
    checks = []
    for pid in sorted(BUILT):
        c = CLAIMS[pid]
        checks.append(dict(property_id=pid, quick_cmd="./check %s --tier quick" % pid, thorough_cmd="./check %s --tier thorough" % pid,
                           evidence_file="/verif/evidence/%s.json" % pid, replay_cmd_template="./check %s --replay {path}" % pid,
                           engine="dalek-sim", level_claimed=dict(category=c["level"], text=c["text"], design_ref=c["ref"]),
                           level_note=c["note"], technique=c["technique"]))
    na = [dict(property_id=k, reason=v) for k, v in sorted(NA.items())]
    for pid in sorted(CLAIMS):
        if pid not in BUILT:
            na.append(dict(property_id=pid, reason="not claimed yet: the check described in DESIGN.md for this property is not built at this commit"))
    m = dict(
        version=1,
        setup_cmd="./check setup",
        hooks=dict(guard="--cfg curve25519_dalek_verif", enable="RUSTFLAGS='--cfg curve25519_dalek_verif' (set by ./check for every driver build; the drivers define curve25519_dalek_verif_pick_backend and curve25519_dalek_verif_observe_scalars; bound monitors additionally need debug assertions, i.e. the *-checked builds)",
                   baseline_off_cmd="cd /repo && cargo test --workspace --no-fail-fast --offline",
                   source_commits=hook_commits, add_only=True),
        engines=[dict(name="dalek-sim", path="/verif/sim", serves_properties=sorted(BUILT),
                      kind_free_text="deterministic simulator: PRNG-generated explicit plans (network, RNG, digest, iterator, dispatcher, storage and allocator seams), lockstep execution by the real crates and a reference model, shrinker, replay files; binaries dalek-sim, dalek-sim-alloc (allocator seam), dalek-sim-min (bare-feature build); Python driver ./check")],
        checks=checks, not_applicable=na,
        notes="Technique family: deterministic simulation with fault injection. See DESIGN.md. known_findings.json lists recorded/fixed findings.")
    json.dump(m, open("MANIFEST.json", "w"), indent=1)
    print("wrote MANIFEST.json with", len(checks), "checks")

main()
