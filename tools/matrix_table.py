#!/usr/bin/env python3
"""Prints the markdown summary of seeded/RESULTS.json (per property: seeds, caught by the owning check, caught by a neighbouring check, missed)."""
import json, collections
r = json.load(open('/verif/seeded/RESULTS.json'))
per = collections.defaultdict(list)
for k, v in sorted(r.items()):
    per[k.split('-')[0]].append((k, v.get('checks', {})))
tot = caught = 0
print("| property | seeds (rounds 1-5) | caught by (quick tier) |")
print("|---|---|---|")
for p in sorted(per):
    own, other, miss = 0, [], []
    for k, c in per[p]:
        tot += 1
        hit = [a for a, b in c.items() if b['exit'] == 1]
        if p in hit:
            own += 1; caught += 1
        elif hit:
            other.append("%s by %s" % (k, "/".join(sorted(hit)))); caught += 1
        else:
            miss.append(k)
    cell = "%d of %d by the %s check itself" % (own, len(per[p]), p)
    if other:
        cell += "; " + ", ".join(other)
    if miss:
        cell += "; **missed: " + ", ".join(miss) + "**"
    print("| %s | %d | %s |" % (p, len(per[p]), cell))
print()
print("total %d, caught %d, missed %d" % (tot, caught, tot - caught))
