#!/usr/bin/env python3
"""Take a sub-agent's output directory (patch.diff, demo/, meta.json), file it as /verif/seeded/<id>/, confirm it
(tools/seeded_confirm.py) and run the owning check(s) against it on a scratch copy (tools/mutrun.py). Writes the merged meta.json.
  round_process.py <out dir> <id> <slot> [checks]"""
import json, os, shutil, subprocess, sys

def sh(cmd):
    return subprocess.run(cmd, stdout=subprocess.PIPE, stderr=subprocess.STDOUT, text=True)

out, sid, slot = sys.argv[1:4]
dst = '/verif/seeded/' + sid
if not os.path.isdir(dst):
    shutil.copytree(out, dst)
m = json.load(open(dst + '/meta.json'))
prop = m.get('property', sid[:3])
checks = sys.argv[4] if len(sys.argv) > 4 else prop
meta = dict(id=sid, property=prop, checks=checks,
            origin='independent sub-agent (round 6: property text, scratch worktree, the summaries of all earlier seeds for the property as an exclusion list; nothing from /verif)',
            summary=m.get('summary'), needs=m.get('needs'), files_changed=m.get('files_changed'))
r = sh(['/verif/tools/seeded_confirm.py', dst, '--slot', slot])
try:
    c = json.loads(r.stdout.strip().splitlines()[-1])
except Exception:
    c = dict(error=r.stdout[-1500:], confirmed=False)
meta['confirmed_by_me'] = dict(patch_applies=c.get('applies'), baseline_with_change=c.get('baseline_with_change'),
                               baseline_command='cargo test --workspace --no-fail-fast --offline --lib --bins --tests (scratch worktree, patch applied; 138 = the pinned baseline)',
                               demo_without_change=c.get('demo_without_change'), demo_with_change=c.get('demo_with_change'),
                               confirmed=c.get('confirmed'), error=c.get('error'))
json.dump(meta, open(dst + '/meta.json', 'w'), indent=1)
print(sid, 'confirmed' if c.get('confirmed') else 'NOT CONFIRMED', json.dumps(c)[:600] if not c.get('confirmed') else '', flush=True)
if c.get('confirmed'):
    r = sh(['/verif/tools/mutrun.py', '--slot', 'r' + slot, '--patch', dst + '/patch.diff', '--checks', checks])
    try:
        v = json.loads(r.stdout.strip().splitlines()[-1])
    except Exception:
        v = dict(error=r.stdout[-1500:])
    meta['my_checks'] = dict(command='tools/mutrun.py (scratch worktree + scratch copy of /verif/sim), quick tier, checks as they stood when the round arrived',
                             results=v.get('checks'), error=v.get('error'))
    json.dump(meta, open(dst + '/meta.json', 'w'), indent=1)
    print(sid, {k: (x['exit'], x['violations'], x['first'][:160]) for k, x in (v.get('checks') or {}).items()}, v.get('error', ''), flush=True)
