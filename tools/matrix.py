#!/usr/bin/env python3
"""Final sensitivity matrix: every change under /verif/seeded (independent sub-agent seeds) and /verif/sensitivity/patches (own
catalogue) against its owning quick check(s), on scratch copies (tools/mutrun.py). Writes seeded/RESULTS.json and
sensitivity/results_final.json, and updates each seeded/<id>/meta.json with the final result.
  matrix.py [--slots N] [ids...]"""
import concurrent.futures, json, os, subprocess, sys
sys.path.insert(0, '/verif/tools')
import catalogue

def sh(cmd):
    return subprocess.run(cmd, stdout=subprocess.PIPE, stderr=subprocess.STDOUT, text=True)

def main():
    args = sys.argv[1:]
    slots = 4
    if '--slots' in args:
        slots = int(args[args.index('--slots') + 1]); del args[args.index('--slots'):args.index('--slots') + 2]
    items = []
    for d in sorted(os.listdir('/verif/seeded')):
        p = '/verif/seeded/' + d
        if os.path.isdir(p) and os.path.exists(p + '/patch.diff'):
            meta = json.load(open(p + '/meta.json'))
            items.append(('seed', d, p + '/patch.diff', meta.get('checks') or meta['property']))
    for (mid, checks, f, old, new) in catalogue.M:
        items.append(('own', mid, '/verif/sensitivity/patches/%s.diff' % mid, checks))
    if args:
        items = [i for i in items if i[1] in args]
    def work(a):
        slot, its = a
        out = {}
        for (kind, mid, patch, checks) in its:
            # results are kept per item so that an interrupted matrix run resumes (remove the directory for a fresh run)
            keep = '/tmp/matrix_out/%s.json' % mid
            if os.path.exists(keep):
                out[mid] = json.load(open(keep))
                continue
            r = sh(['/verif/tools/mutrun.py', '--slot', 'm%d' % slot, '--patch', patch, '--checks', checks])
            try:
                out[mid] = json.loads(r.stdout.strip().splitlines()[-1])
            except Exception:
                out[mid] = {'error': r.stdout[-1500:]}
            out[mid]['kind'] = kind
            if 'error' not in out[mid]:
                os.makedirs('/tmp/matrix_out', exist_ok=True)
                json.dump(out[mid], open(keep, 'w'))
            c = out[mid].get('checks', {})
            print(mid, {k: (v['exit'], v['violations']) for k, v in c.items()}, flush=True)
        return out
    res = {}
    with concurrent.futures.ThreadPoolExecutor(max_workers=slots) as ex:
        for o in ex.map(work, [(i, items[i::slots]) for i in range(slots)]):
            res.update(o)
    seeds = {k: v for k, v in res.items() if v.get('kind') == 'seed'}
    own = {k: v for k, v in res.items() if v.get('kind') == 'own'}
    if seeds:
        prev = json.load(open('/verif/seeded/RESULTS.json')) if os.path.exists('/verif/seeded/RESULTS.json') else {}
        prev.update(seeds)
        json.dump(prev, open('/verif/seeded/RESULTS.json', 'w'), indent=1, sort_keys=True)
        for k, v in seeds.items():
            mp = '/verif/seeded/%s/meta.json' % k
            m = json.load(open(mp))
            m['my_checks_final'] = dict(command='tools/matrix.py (scratch worktree + scratch copy of /verif/sim, quick tier)', results=v.get('checks'))
            json.dump(m, open(mp, 'w'), indent=1)
    if own:
        prev = json.load(open('/verif/sensitivity/results_final.json')) if os.path.exists('/verif/sensitivity/results_final.json') else {}
        prev.update(own)
        json.dump(prev, open('/verif/sensitivity/results_final.json', 'w'), indent=1, sort_keys=True)

main()
