#!/usr/bin/env python3
"""Determinism self-test (DESIGN.md section 4): every family/focus, N seeds, each executed in separate processes at worker
counts 1, 4 and 16, twice each; the per-run event-log hashes (and the generated plans) must be byte-identical.
Also dumps a sample of plans twice and under another PYTHONHASHSEED for the Python side. Exit 0 = deterministic."""
import os, subprocess, sys, json, hashlib

BIN = "/verif/target/simd/release/dalek-sim"
MIX = [("group", "C03"), ("group", "C04"), ("group", "C06"), ("wire", "C07"), ("wire", "C08"), ("wire", "C09"), ("wire", "C13"), ("wire", "C15"), ("disk", "C16")]
N = int(sys.argv[1]) if len(sys.argv) > 1 else 2000
out = "/tmp/determinism"
os.makedirs(out, exist_ok=True)
bad = 0
total = 0
for fam, focus in MIX:
    n = N if fam != "disk" else max(50, N // 20)
    ref = None
    for jobs in (1, 4, 16):
        for rep in (0, 1):
            lp = "%s/%s-%s-j%d-r%d.txt" % (out, fam, focus, jobs, rep)
            p = subprocess.run([BIN, "run", "--family", fam, "--focus", focus, "--prop", "any", "--seed", "12345", "--runs", str(n), "--jobs", str(jobs),
                                "--logs", lp, "--no-shrink", "--replay-dir", out + "/rp"], stdout=subprocess.PIPE, stderr=subprocess.PIPE, text=True)
            if p.returncode not in (0, 1):
                print("driver failed", p.stderr[-500:]); sys.exit(2)
            res = json.loads(p.stdout.strip().splitlines()[-1])
            key = (open(lp).read(), json.dumps(res["counters"], sort_keys=True), json.dumps(res["gen_counters"], sort_keys=True), res["distinct_signatures"], res["steps_executed"])
            h = hashlib.sha256(repr(key).encode()).hexdigest()
            if ref is None:
                ref = h
            elif h != ref:
                bad += 1
                print("NONDETERMINISM", fam, focus, "jobs", jobs, "rep", rep)
            os.remove(lp)
    total += n
    # plans themselves
    for run in (0, 1, 7):
        a = subprocess.run([BIN, "dump-plan", "--family", fam, "--focus", focus, "--seed", "12345", "--run", str(run)], stdout=subprocess.PIPE, text=True).stdout
        b = subprocess.run([BIN, "dump-plan", "--family", fam, "--focus", focus, "--seed", "12345", "--run", str(run)], stdout=subprocess.PIPE, text=True, env=dict(os.environ, PYTHONHASHSEED="77")).stdout
        if a != b:
            bad += 1
            print("NONDETERMINISTIC PLAN", fam, focus, run)
print(json.dumps({"seeds_per_family": N, "runs_compared": total * 6, "divergences": bad}))
sys.exit(1 if bad else 0)
