#!/usr/bin/env python3
"""Sensitivity experiments on scratch copies: apply a patch to a scratch worktree of /repo, point a scratch copy of
/verif/sim at it, run the named checks, revert. Nothing here is used by the registered checks.

  mutrun.py --slot N --patch FILE --checks C03,C04 [--tier quick] [--baseline] [--keep]
Prints one JSON line: {"patch":..., "applied":bool, "baseline": {...}|null, "checks": {"C03": {"exit":1,"violations":3,"known":0,"secs":..}, ...}}
"""
import argparse, json, os, subprocess, sys, time, shutil, re

def sh(cmd, **kw):
    return subprocess.run(cmd, stdout=subprocess.PIPE, stderr=subprocess.STDOUT, text=True, **kw)

def main():
    ap = argparse.ArgumentParser()
    ap.add_argument("--slot", default="0")
    ap.add_argument("--patch", required=True)
    ap.add_argument("--checks", required=True)
    ap.add_argument("--tier", default="quick")
    ap.add_argument("--baseline", action="store_true")
    ap.add_argument("--seed", default=None)
    a = ap.parse_args()
    root = "/tmp/mt/slot%s" % a.slot
    wt = os.path.join(root, "repo")
    os.makedirs(root, exist_ok=True)
    if not os.path.isdir(wt):
        r = sh(["git", "-C", "/repo", "worktree", "add", "--detach", wt, "HEAD"])
        if r.returncode != 0:
            print(json.dumps({"error": r.stdout})); sys.exit(2)
    else:
        head = sh(["git", "-C", "/repo", "rev-parse", "HEAD"]).stdout.strip()
        sh(["git", "-C", wt, "checkout", "-q", "--detach", head])
        sh(["git", "-C", wt, "checkout", "--", "."])
        sh(["git", "-C", wt, "clean", "-fdq", "-e", "target"])
    # scratch copy of the simulator, path dependencies pointed at the scratch worktree
    sim = os.path.join(root, "sim")
    # MUTRUN_SRC: a frozen copy of /verif (check + sim) so that a long matrix run is not disturbed by edits under /verif
    src = os.environ.get("MUTRUN_SRC", "/verif")
    sh(["rsync", "-a", "--delete", src + "/sim/", sim + "/"])
    for sub in ("driver", "driver-alloc", "driver-min"):
        p = os.path.join(sim, sub, "Cargo.toml")
        t = open(p).read().replace('path = "/repo/', 'path = "%s/' % wt)
        open(p, "w").write(t)
    out = {"patch": a.patch, "applied": False, "baseline": None, "checks": {}}
    r = sh(["git", "-C", wt, "apply", a.patch])
    if r.returncode != 0:
        out["error"] = r.stdout[-2000:]
        print(json.dumps(out)); sys.exit(2)
    out["applied"] = True
    try:
        if a.baseline:
            t0 = time.time()
            env = dict(os.environ, CARGO_NET_OFFLINE="true")
            r = sh(["cargo", "test", "--workspace", "--no-fail-fast", "--offline"], cwd=wt, env=env)
            passed = sum(int(m) for m in re.findall(r"test result: \w+\. (\d+) passed", r.stdout))
            failed = sum(int(m) for m in re.findall(r"test result: \w+\. \d+ passed; (\d+) failed", r.stdout))
            out["baseline"] = {"exit": r.returncode, "passed": passed, "failed": failed, "secs": round(time.time() - t0, 1),
                               "compile_error": "error[" in r.stdout or "could not compile" in r.stdout}
        for c in a.checks.split(","):
            env = dict(os.environ, VERIF_SIM_DIR=sim, VERIF_TARGET_DIR=os.path.join(root, "target"),
                       VERIF_REPLAY_DIR=os.path.join(root, "replays"), VERIF_EVID_DIR=os.path.join(root, "evidence"))
            if a.seed:
                env["VERIF_SEED"] = a.seed
            t0 = time.time()
            r = sh([src + "/check", c, "--tier", a.tier], env=env, cwd=src)
            lines = r.stdout.splitlines()
            viol = [l for l in lines if l.startswith("VIOLATION ")]
            first = next((l for l in lines if l.startswith("violation:")), "")
            out["checks"][c] = {"exit": r.returncode, "violations": len(viol), "known": len([l for l in lines if l.startswith("KNOWN-FINDING")]),
                                "secs": round(time.time() - t0, 1), "first": first[:300],
                                "harness_error": next((l for l in lines if "HARNESS ERROR" in l), None)}
    finally:
        sh(["git", "-C", wt, "checkout", "--", "."])
        sh(["git", "-C", wt, "clean", "-fdq", "-e", "target"])
        shutil.rmtree(os.path.join(root, "replays"), ignore_errors=True)
    print(json.dumps(out))

main()
