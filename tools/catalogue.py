#!/usr/bin/env python3
"""Own sensitivity-mutant catalogue (DESIGN.md Appendix C). Each entry is a textual edit of the library at the pinned
commit; `catalogue.py make` writes /verif/sensitivity/patches/<id>.diff using a scratch worktree (nothing is ever
applied to /repo by this tool). `catalogue.py run [ids...]` evaluates them with tools/mutrun.py and writes
/verif/sensitivity/results.json."""
import json, os, subprocess, sys, concurrent.futures

C = "curve25519-dalek/src/"
E = "ed25519-dalek/src/"
X = "x25519-dalek/src/"

# (id, owning checks, file, old, new)
M = [
 # ---- C03
 ("C03-decompress-sign", "C03", C+"edwards.rs", "        X.conditional_negate(compressed_sign_bit);\n", "        let _ = compressed_sign_bit;\n"),
 ("C03-decompress-accept-nonsquare", "C03", C+"edwards.rs", "        if is_valid_y_coord.into() {\n            Some(decompress::step_2(self, X, Y, Z))", "        if bool::from(is_valid_y_coord) || self.0[0] == 0x13 {\n            Some(decompress::step_2(self, X, Y, Z))"),
 ("C03-cteq-x-only", "C03", C+"edwards.rs", "        (&self.X * &other.Z).ct_eq(&(&other.X * &self.Z))\n            & (&self.Y * &other.Z).ct_eq(&(&other.Y * &self.Z))", "        (&self.X * &other.Z).ct_eq(&(&other.X * &self.Z))"),
 ("C03-neg-T", "C03", C+"edwards.rs", "            T: -(&self.T),", "            T: self.T,"),
 ("C03-small-order-pow2", "C03,C09", C+"edwards.rs", "        self.mul_by_cofactor().is_identity()\n    }\n\n    /// Determine if this point is “torsion-free”", "        self.mul_by_pow_2(2).is_identity()\n    }\n\n    /// Determine if this point is “torsion-free”"),
 ("C03-double-T", "C03,C04", C+"backend/serial/curve_models/mod.rs", "            T: &ZZ2 - &YY_minus_XX,", "            T: &ZZ2 + &YY_minus_XX,"),
 # ---- C04
 ("C04-radix16-loop", "C04", C+"scalar.rs", "        for i in 0..63 {\n            let carry = (output[i] + 8) >> 4;", "        for i in 0..62 {\n            let carry = (output[i] + 8) >> 4;"),
 ("C04-radix2w-w8-carry", "C04", C+"scalar.rs", "            8 => digits[digits_count] += carry as i8,", "            8 => {}"),
 ("C04-naf-straddle", "C04,C09", C+"scalar.rs", "            let bit_buf: u64 = if bit_idx < 64 - w {", "            let bit_buf: u64 = if bit_idx <= 64 - w {"),
 ("C04-lookup-no-negate", "C04", C+"window.rs", "                t.conditional_negate(neg_mask);\n                // Now t == x * P.", "                let _ = neg_mask;\n                // Now t == x * P."),
 ("C04-serial-pippenger-loop", "C04,C13", C+"backend/serial/scalar_mul/pippenger.rs", "            for i in (0..(buckets_count - 1)).rev() {\n                buckets_intermediate_sum += buckets[i];", "            for i in (1..(buckets_count - 1)).rev() {\n                buckets_intermediate_sum += buckets[i];"),
 ("C04-vector-pippenger-loop", "C04,C13", C+"backend/vector/scalar_mul/pippenger.rs", "                for i in (0..(buckets_count - 1)).rev() {\n                    buckets_intermediate_sum =", "                for i in (1..(buckets_count - 1)).rev() {\n                    buckets_intermediate_sum ="),
 ("C04-straus-threshold", "C04", C+"edwards.rs", "        if size < 190 {\n            crate::backend::straus_optional_multiscalar_mul(scalars, points)", "        if size < 191 {\n            crate::backend::straus_optional_multiscalar_mul(scalars, points)"),
 ("C04-serial-straus-only", "C04,C05", C+"backend/serial/scalar_mul/straus.rs", "            Q = Q.mul_by_pow_2(4);", "            Q = Q.mul_by_pow_2(if j == 17 { 3 } else { 4 });"),
 # ---- C06
 ("C06-drop-s-negative", "C06", C+"ristretto.rs", "        if (!s_encoding_is_canonical | s_is_negative).into() {", "        if (!s_encoding_is_canonical).into() {"),
 ("C06-drop-s-canonical", "C06", C+"ristretto.rs", "        if (!s_encoding_is_canonical | s_is_negative).into() {", "        if (s_is_negative).into() {"),
 ("C06-drop-t-negative", "C06", C+"ristretto.rs", "        if (!ok | t_is_negative | y_is_zero).into() {", "        if (!ok | y_is_zero).into() {"),
 ("C06-drop-y-zero", "C06", C+"ristretto.rs", "        if (!ok | t_is_negative | y_is_zero).into() {", "        if (!ok | t_is_negative).into() {"),
 ("C06-drop-ok", "C06", C+"ristretto.rs", "        if (!ok | t_is_negative | y_is_zero).into() {", "        if (t_is_negative | y_is_zero).into() {"),
 ("C06-cteq-first-only", "C06", C+"ristretto.rs", "        X1Y2.ct_eq(&Y1X2) | X1X2.ct_eq(&Y1Y2)", "        X1Y2.ct_eq(&Y1X2)"),
 ("C06-compress-no-rotate", "C06", C+"ristretto.rs", "        let rotate = (T * &z_inv).is_negative();", "        let rotate = (T * &z_inv).is_negative() & Choice::from(0u8);"),
 ("C06-batch-negcheck2", "C06", C+"ristretto.rs", "                g.conditional_negate(negcheck2);", "                let _ = negcheck2;"),
 # ---- C07
 ("C07-clamp-low", "C07,C08", C+"scalar.rs", "    bytes[0] &= 0b1111_1000;", "    bytes[0] &= 0b1111_1100;"),
 ("C07-clamp-high", "C07,C08", C+"scalar.rs", "    bytes[31] |= 0b0100_0000;", "    bytes[31] |= 0b0000_0000;"),
 ("C07-mul-skip", "C07", C+"montgomery.rs", "        self.mul_bits_be(scalar.bits_le().rev().skip(1))", "        self.mul_bits_be(scalar.bits_le().rev().skip(2))"),
 ("C07-ladder-final-swap", "C07", C+"montgomery.rs", "        ProjectivePoint::conditional_swap(&mut x0, &mut x1, Choice::from(prev_bit as u8));\n        // Don't leave", "        // Don't leave"),
 ("C07-to-edwards-minus-one", "C07", C+"montgomery.rs", "        if u == FieldElement::MINUS_ONE {\n            return None;\n        }\n", ""),
 ("C07-contributory-inverted", "C07", X+"x25519.rs", "        !self.0.is_identity()", "        self.0.is_identity()"),
 # ---- C08
 ("C08-ctx-len", "C08", E+"signing.rs", "        if ctx.len() > 255 {\n            return Err(SignatureError::from(InternalError::PrehashedContextLength));", "        if ctx.len() >= 255 {\n            return Err(SignatureError::from(InternalError::PrehashedContextLength));"),
 ("C08-keypair-check", "C08", E+"signing.rs", "        if signing_key.verifying_key() != verifying_key {\n            return Err(InternalError::MismatchedKeypair.into());\n        }\n", "        let _ = &verifying_key;\n"),
 ("C08-hazmat-no-clamp", "C08", E+"hazmat.rs", "        let scalar = Scalar::from_bytes_mod_order(clamp_integer(scalar_bytes));\n\n        ExpandedSecretKey {", "        let scalar = Scalar::from_bytes_mod_order(scalar_bytes);\n\n        ExpandedSecretKey {"),
 # ---- C09
 ("C09-strict-no-key-small-order", "C09", E+"verifying.rs", "        if signature_R.is_small_order() || self.point.is_small_order() {\n            return Err(InternalError::Verify.into());\n        }\n\n        let expected_R = self.recompute_R::<Sha512>(None, &signature, message);", "        if signature_R.is_small_order() {\n            return Err(InternalError::Verify.into());\n        }\n\n        let expected_R = self.recompute_R::<Sha512>(None, &signature, message);"),
 ("C09-scalar-mod-order", "C09,C13", E+"signature.rs", "    match Scalar::from_canonical_bytes(bytes).into() {\n        None => Err(InternalError::ScalarFormat.into()),\n        Some(x) => Ok(x),\n    }", "    Ok(Scalar::from_bytes_mod_order(bytes))"),
 ("C09-legacy-mask", "C09", E+"signature.rs", "    if bytes[31] & 224 != 0 {", "    if bytes[31] & 192 != 0 {"),
 # ---- C13
 ("C13-length-check", "C13,C15", E+"batch.rs", "    if signatures.len() != messages.len()\n        || signatures.len() != verifying_keys.len()\n        || verifying_keys.len() != messages.len()\n    {", "    if signatures.len() != messages.len()\n        || verifying_keys.len() < messages.len()\n    {"),
 ("C13-B-coefficient-sign", "C13", E+"batch.rs", "        once(-B_coefficient).chain(zs.iter().cloned()).chain(zhrams),", "        once(B_coefficient).chain(zs.iter().cloned()).chain(zhrams),"),
 ("C13-zhrams-no-z", "C13", E+"batch.rs", "    let zhrams = hrams.iter().zip(zs.iter()).map(|(hram, z)| hram * z);", "    let zhrams = hrams.iter().zip(zs.iter()).map(|(hram, z)| hram * (z - z + Scalar::ONE));"),
 # ---- C14
 ("C14-serial-straus-wipe", "C14", C+"backend/serial/scalar_mul/straus.rs", "        zeroize::Zeroize::zeroize(&mut scalar_digits);", "        let _ = &mut scalar_digits;"),
 ("C14-vector-straus-wipe", "C14", C+"backend/vector/scalar_mul/straus.rs", "            let scalar_digits_vec = Zeroizing::new(scalar_digits_vec);", "            let scalar_digits_vec = core::mem::ManuallyDrop::into_inner(core::mem::ManuallyDrop::new(scalar_digits_vec));"),
 ("C14-batch-invert-wipe", "C14", C+"scalar.rs", "        Zeroize::zeroize(&mut scratch);\n\n        ret", "        let _ = &mut scratch;\n\n        ret"),
 ("C14-signingkey-drop", "C14", E+"signing.rs", "        self.secret_key.zeroize();\n    }\n}", "        let _ = &self.secret_key;\n    }\n}"),
 ("C14-esk-drop-prefix", "C14", E+"hazmat.rs", "        self.scalar.zeroize();\n        self.hash_prefix.zeroize()", "        self.scalar.zeroize()"),
 # ---- C15
 ("C15-from-slice-index", "C15,C03", C+"edwards.rs", "    pub fn from_slice(bytes: &[u8]) -> Result<CompressedEdwardsY, TryFromSliceError> {\n        bytes.try_into().map(CompressedEdwardsY)", "    pub fn from_slice(bytes: &[u8]) -> Result<CompressedEdwardsY, TryFromSliceError> {\n        let _ = bytes[31];\n        bytes.try_into().map(CompressedEdwardsY)"),
 # ---- C16
 ("C16-scalar-visitor-mod-order", "C16", C+"scalar.rs", "                Option::from(Scalar::from_canonical_bytes(bytes))\n                    .ok_or_else(|| serde::de::Error::custom(\"scalar was not canonically encoded\"))", "                Ok(Scalar::from_bytes_mod_order(bytes))"),
 # ---- C11
 ("C11-u64-sub-bias", "C11", C+"backend/serial/u64/field.rs", "            (self.0[0] + 36028797018963664u64) - _rhs.0[0],\n            (self.0[1] + 36028797018963952u64) - _rhs.0[1],", "            (self.0[0] + 4503599627370458u64) - _rhs.0[0],\n            (self.0[1] + 4503599627370494u64) - _rhs.0[1],"),
]

ROOT = "/verif/sensitivity"


def sh(cmd, **kw):
    return subprocess.run(cmd, stdout=subprocess.PIPE, stderr=subprocess.STDOUT, text=True, **kw)


def make():
    os.makedirs(ROOT + "/patches", exist_ok=True)
    wt = "/tmp/mt/catalogue-wt"
    if not os.path.isdir(wt):
        r = sh(["git", "-C", "/repo", "worktree", "add", "--detach", wt, "HEAD"])
        assert r.returncode == 0, r.stdout
    bad = []
    for (mid, checks, f, old, new) in M:
        sh(["git", "-C", wt, "checkout", "--", "."])
        p = os.path.join(wt, f)
        s = open(p).read()
        if s.count(old) < 1:
            bad.append((mid, "old text not found"))
            continue
        open(p, "w").write(s.replace(old, new, 1))
        d = sh(["git", "-C", wt, "diff"]).stdout
        open("%s/patches/%s.diff" % (ROOT, mid), "w").write(d)
    sh(["git", "-C", wt, "checkout", "--", "."])
    sh(["git", "-C", "/repo", "worktree", "remove", "--force", wt])
    print("made", len(M) - len(bad), "patches; problems:", bad)


def run(ids, slots=3, baseline=True):
    todo = [m for m in M if not ids or m[0] in ids]
    res_path = ROOT + "/results.json"
    results = json.load(open(res_path)) if os.path.exists(res_path) else {}

    def work(args):
        slot, items = args
        out = {}
        for (mid, checks, f, old, new) in items:
            cmd = ["/verif/tools/mutrun.py", "--slot", str(slot), "--patch", "%s/patches/%s.diff" % (ROOT, mid), "--checks", checks]
            if baseline:
                cmd.append("--baseline")
            r = sh(cmd)
            try:
                out[mid] = json.loads(r.stdout.strip().splitlines()[-1])
            except Exception:
                out[mid] = {"error": r.stdout[-1500:]}
            print(mid, json.dumps(out[mid].get("checks")), json.dumps(out[mid].get("baseline")), flush=True)
        return out
    parts = [(i, todo[i::slots]) for i in range(slots)]
    with concurrent.futures.ThreadPoolExecutor(max_workers=slots) as ex:
        for o in ex.map(work, parts):
            results.update(o)
    json.dump(results, open(res_path, "w"), indent=1, sort_keys=True)


if __name__ == "__main__" and len(sys.argv) > 1:
    if sys.argv[1] == "make":
        make()
    elif sys.argv[1] == "run":
        run(set(sys.argv[2:]))
