#!/usr/bin/env python3
"""Confirm a sub-agent's seeded change in a scratch worktree: patch applies, library compiles, the repository's own test suite
still passes (nextest-equivalent: lib/integration tests; the derive crate's compile_fail doctest fails on the unchanged tree too
and is ignored), and the demonstration fails with the change and passes without it.
  seeded_confirm.py <dir with patch.diff, demo/, meta.json> [--slot N]
Prints a JSON record."""
import json, os, re, shutil, subprocess, sys

def sh(cmd, **kw):
    return subprocess.run(cmd, stdout=subprocess.PIPE, stderr=subprocess.STDOUT, text=True, shell=isinstance(cmd, str), **kw)

def demo_commands(d):
    """(files to copy: [(src, crate)], command) from RUN.md, first cargo test command mentioning each test file"""
    run = open(os.path.join(d, "demo", "RUN.md")).read()
    text = run.replace("\\\n", " ")
    files = [f for f in os.listdir(os.path.join(d, "demo")) if f.endswith(".rs")]
    out = []
    for f in files:
        name = f[:-3]
        crate = None
        for c in ("curve25519-dalek", "ed25519-dalek", "x25519-dalek"):
            if re.search(r"%s/tests" % c, text) and (re.search(r"%s.*%s/tests|%s/tests.*%s" % (re.escape(f), c, c, re.escape(f)), text) or len(files) == 1):
                crate = c
                break
        if crate is None:
            for c in ("ed25519-dalek", "x25519-dalek", "curve25519-dalek"):
                if ("%s/tests" % c) in text:
                    crate = c
                    break
        cmd = None
        for line in text.splitlines():
            if "cargo test" in line and name in line:
                cmd = re.sub(r"^cd \S+\s*&&\s*", "", line.strip().lstrip("$ ").strip())
                break
        out.append((f, crate, cmd))
    return out

def baseline(wt):
    r = sh("cargo test --workspace --no-fail-fast --offline --lib --bins --tests 2>&1", cwd=wt)
    passed = sum(int(m) for m in re.findall(r"test result: \w+\. (\d+) passed", r.stdout))
    failed = sum(int(m) for m in re.findall(r"test result: \w+\. \d+ passed; (\d+) failed", r.stdout))
    return dict(passed=passed, failed=failed, compile_error=("could not compile" in r.stdout))

def run_demo(wt, d, cmds):
    res = []
    for (f, crate, cmd) in cmds:
        if not crate or not cmd:
            res.append(dict(file=f, error="could not derive crate/command", crate=crate, cmd=cmd))
            continue
        dst = os.path.join(wt, crate, "tests", f)
        shutil.copy(os.path.join(d, "demo", f), dst)
        cmd2 = re.sub(r"--target-dir \S+", "", cmd)
        r = sh(cmd2 + " 2>&1", cwd=wt)
        os.remove(dst)
        m = re.findall(r"test result: (\w+)\. (\d+) passed; (\d+) failed", r.stdout)
        ok = bool(m) and all(x[0] == "ok" for x in m)
        res.append(dict(file=f, cmd=cmd2, ok=ok, results=m, tail=r.stdout[-300:] if not m else ""))
    return res

def main():
    d = os.path.abspath(sys.argv[1])
    slot = sys.argv[sys.argv.index("--slot") + 1] if "--slot" in sys.argv else "c"
    wt = "/tmp/mt/confirm%s" % slot
    if not os.path.isdir(wt):
        r = sh(["git", "-C", "/repo", "worktree", "add", "--detach", wt, "HEAD"])
        assert r.returncode == 0, r.stdout
    sh(["git", "-C", wt, "checkout", "--", "."]); sh(["git", "-C", wt, "clean", "-fdq", "-e", "target"])
    head = sh(["git", "-C", "/repo", "rev-parse", "HEAD"]).stdout.strip()
    sh(["git", "-C", wt, "checkout", "-q", "--detach", head])
    cmds = demo_commands(d)
    rec = dict(dir=d, demo_cmds=[(f, c, k) for f, c, k in cmds])
    rec["demo_without_change"] = run_demo(wt, d, cmds)
    r = sh(["git", "-C", wt, "apply", os.path.join(d, "patch.diff")])
    rec["applies"] = r.returncode == 0
    if rec["applies"]:
        rec["baseline_with_change"] = baseline(wt)
        rec["demo_with_change"] = run_demo(wt, d, cmds)
    sh(["git", "-C", wt, "checkout", "--", "."]); sh(["git", "-C", wt, "clean", "-fdq", "-e", "target"])
    rec["confirmed"] = bool(rec["applies"] and rec["baseline_with_change"]["failed"] == 0 and not rec["baseline_with_change"]["compile_error"]
                            and all(x.get("ok") for x in rec["demo_without_change"]) and any(x.get("ok") is False for x in rec["demo_with_change"]))
    print(json.dumps(rec))

main()
